import sys
sys.path.insert(0, '/tmp/probe/stubs'); sys.path.insert(0, '/repo')
import stubmods, immutables, asyncio, pickle
from edb.server.compiler_pool import pool as P, worker as W, state as S

def drive(coro):
    try:
        coro.send(None)
    except StopIteration as e:
        return e.value
    raise RuntimeError('suspended')

class Rec:
    def __init__(self): self.calls = []
    def compile_serialized_request(self, *a, **k):
        self.calls.append(a); return ('units', None)
W.COMPILER = Rec()
W.DBS = immutables.Map(); 

class Wk(P.BaseWorker):
    def __init__(self):
        super().__init__(immutables.Map(), None, None, None, None, None, None)
        self._con = type('C', (), {'is_closed': lambda s: False})()
    async def _request(self, method_name, args):
        try:
            res = getattr(W, method_name)(*args)
            return pickle.dumps((0, res))
        except Exception as ex:
            return pickle.dumps((1, ex, 'tb'))
class Pool(P.AbstractPool):
    def __init__(self): self.w = Wk()
    async def _acquire_worker(self, **kw): return self.w
    def _release_worker(self, worker, *, put_in_front=True): pass

p = Pool()
M1 = immutables.Map({'a': 1}); E = immutables.Map()
us = pickle.dumps('schema1'); gs = pickle.dumps('gschema'); rc = immutables.Map({'r': ('x',)}); sc = immutables.Map({'s': 1})
for dbcfg in (M1, E, M1):
    r = drive(p.compile('db', us, gs, rc, dbcfg, sc, 'req'))
    used = W.COMPILER.calls[-1][3]
    print('supplied', dict(dbcfg), 'worker used', dict(used), 'server believes', dict(p.w._dbs['db'].database_config))
