import sys, os
sys.path.insert(0, '/tmp/probe/stubs'); sys.path.insert(0, '/repo'); sys.path.insert(0, '/tmp/probe')
import stubmods
import asyncio
from typing import List
from miniloop import MiniLoop
from edb.server.connpool import pool as P
from h_pool import Env

DBS = ['a', 'b']
COUNT = [0]

def run(cap: int, choices: List[int], dt: List[int]) -> bool:
    clock = [0]
    P.time.monotonic = lambda: clock[0]
    env = Env(cap)
    asyncio._set_running_loop(env.loop)
    held = []      # (db, conn)
    tasks = []     # (db, task)
    nacq = 0
    try:
        for step, ch in enumerate(choices):
            clock[0] = clock[0] + dt[step]
            # harvest finished acquires
            for db, t in list(tasks):
                if t.done():
                    tasks.remove((db, t))
                    if t.exception() is None:
                        c = t.result()
                        if c in [h[1] for h in held]:
                            return False   # double lend
                        if c not in env.live or c[0] != db:
                            return False
                        held.append((db, c))
            acts = []
            if env.loop.ready: acts.append(('run',))
            if nacq < 3:
                for db in DBS: acts.append(('acq', db))
            for h in held: acts.append(('rel', h)); 
            for p in env.pending: acts.append(('conn', p))
            for d in env.disc: acts.append(('disc', d))
            for i in range(len(env.loop.timers)): acts.append(('timer', i))
            if ch >= len(acts):
                return True
            a = acts[ch]
            if a[0] == 'run': env.loop.run_one()
            elif a[0] == 'acq':
                nacq += 1
                tasks.append((a[1], env.loop.create_task(env.pool.acquire(a[1]))))
            elif a[0] == 'rel':
                held.remove(a[1]); env.pool.release(a[1][0], a[1][1])
            elif a[0] == 'conn':
                env.pending.remove(a[1]); a[1][1].set_result(None)
            elif a[0] == 'disc':
                env.disc.remove(a[1]); a[1][1].set_result(None)
            elif a[0] == 'timer':
                env.loop.fire_timer(a[1])
            opening = len(env.pending)
            if len(env.live) + opening > cap:
                return False
        COUNT[0] += 1
        return True
    finally:
        # finish all suspended coroutines while still tracing
        for _, fut in env.pending: 
            if not fut.done(): fut.cancel()
        for _, fut in env.disc:
            if not fut.done(): fut.cancel()
        for _, t in tasks: t.cancel()
        for b in env.pool._blocks.values():
            for w in list(b.conn_waiters):
                if not w.done(): w.cancel()
        env.loop.run_ready()
        asyncio._set_running_loop(None)

def sched(cap: int, c0: int, c1: int, c2: int, c3: int, c4: int, c5: int, d: int) -> bool:
    """
    pre: 1 <= cap <= 2
    pre: 0 <= c0 < 9 and 0 <= c1 < 9 and 0 <= c2 < 9 and 0 <= c3 < 9 and 0 <= c4 < 9 and 0 <= c5 < 9
    pre: 0 <= d <= 200
    post: _
    """
    return run(cap, [c0, c1, c2, c3, c4, c5], [d]*6)

def sched4(cap: int, c0: int, c1: int, c2: int, c3: int, d: int) -> bool:
    """
    pre: 1 <= cap <= 2
    pre: 0 <= c0 < 9 and 0 <= c1 < 9 and 0 <= c2 < 9 and 0 <= c3 < 9
    pre: 0 <= d <= 200
    post: _
    """
    return run(cap, [c0, c1, c2, c3], [d]*4)
