import sys, subprocess
sys.path.insert(0, '/tmp/probe/stubs'); sys.path.insert(0, '/repo')
import stubmods
from edb.edgeql import quote as q, codegen, ast as qlast
def lex(strings):
    inp = '\n'.join(s.encode().hex() for s in strings) + '\n'
    out = subprocess.run(['/tmp/probe/rs/lexer'], input=inp, capture_output=True, text=True).stdout.splitlines()
    res = []
    for line in out:
        toks = []
        for p in line.split():
            f = p.split('|')
            if f[0] == 'ERR': toks.append(('ERR', bytes.fromhex(f[1]).decode()))
            else:
                k, v = f[2].split(':',1)
                toks.append((f[0], bytes.fromhex(v).decode('utf8','replace') if k!='N' else None))
        res.append(toks)
    return res
cases = [
 ('F1 dollar', "x$", q.dollar_quote_literal("x$")),
 ('F1 dollar', "$$$a", q.dollar_quote_literal("$$$a")),
 ('F2 quote_literal', "‪", q.quote_literal("‪")),
 ('F3 visit_Constant', "\n\x85", codegen.generate_source(qlast.Constant.string("\n\x85"))),
 ('F3 visit_Constant', "a‪b", codegen.generate_source(qlast.Constant.string("a‪b"))),
 ('F3 visit_Constant', "'\"$", codegen.generate_source(qlast.Constant.string("'\"$"))),
 ('F4 quote_ident', "²", q.quote_ident("²")),
 ('ok  quote_ident', "Ⅱ", q.quote_ident("Ⅱ")),
]
for (tag, val, text), toks in zip(cases, lex([c[2] for c in cases])):
    good = len(toks) == 1 and toks[0][0] != 'ERR' and toks[0][1] == val
    print(tag, repr(val), '->', repr(text), '->', toks, 'OK' if good else 'BROKEN')
