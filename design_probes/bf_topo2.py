import sys, random
sys.path.insert(0,'/repo'); sys.path.insert(0,'/tmp/probe')
from bf_topo import *
def rnd(n, iters, seed, p=(0.5,0.25,0.25)):
    random.seed(seed)
    pairs = [(i,j) for i in range(n) for j in range(n)]
    bad = {}
    for _ in range(iters):
        g = {}
        hard=set(); weak=set()
        order = list(range(n)); random.shuffle(order)
        for i in order:
            g[i] = T.DepGraphEntry(item=i, deps=OrderedSet(), weak_deps=OrderedSet(), merge=None)
        pp = pairs[:]; random.shuffle(pp)
        dens = random.random()
        for (i,j) in pp:
            r = random.random()
            if r < dens*0.5: g[i].deps.add(j); hard.add((i,j))
            elif r < dens: g[i].weak_deps.add(j); weak.add((i,j))
        hc = has_cycle(n, hard)
        try:
            res = [k for k,_ in T.sort_ex(g)]; exc=None
        except T.CycleError as e:
            exc=e
        if exc is not None:
            if not hc: bad.setdefault('spurious',[]).append((order,hard,weak))
            continue
        if hc: bad.setdefault('missed',[]).append((order,hard,weak)); continue
        if sorted(res)!=list(range(n)): bad.setdefault('notperm',[]).append((order,hard,weak,res)); continue
        pos={k:i for i,k in enumerate(res)}
        if any(pos[j]>=pos[i] for i,j in hard): bad.setdefault('hardviol',[]).append((order,hard,weak,res)); continue
        if not has_cycle(n, hard|weak) and any(pos[j]>=pos[i] for i,j in weak): bad.setdefault('weakign',[]).append((order,hard,weak,res))
    return {k:(len(v), v[:1]) for k,v in bad.items()}
for n in (4,5,6):
    print(n, rnd(n, 300000, n))
