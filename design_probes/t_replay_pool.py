import sys; sys.path.insert(0,'/tmp/probe')
import h_pool3b as H
import asyncio
# instrumented replay of recipe_suffix(2, 1, 1, 0, False, 3, 5, 5, 2)
cap, ha, ia, hb, tick, dti, cs = 2, 1, 1, 0, False, 3, (5, 5, 2)
dt = {0:0,1:5,2:20,3:200000}[dti]
d = H.Drv(cap)
def show(tag):
    env = d.env; p = env.pool
    print(f'{tag:28s} t={d.clock[0]} cur={p._cur_capacity} live={sorted(env.live)} pending={[x[0] for x in env.pending]} disc={[x[0] for x in env.disc]} held={d.held} tasks={[(db, t.done()) for db,t in d.tasks]} timers={len(env.loop.timers)} blocks={ {k:(len(b.conns), b.pending_conns, len(b.conn_stack), b.conn_waiters_num) for k,b in p._blocks.items()} }')
try:
    for _ in range(ha+ia): d.do(('acq','a'))
    for _ in range(hb): d.do(('acq','b'))
    print('settle', d.settle()); show('after recipe acquire')
    rel = 0
    for h in list(d.held):
        if h[0]=='a' and rel < ia: d.do(('rel', h)); rel += 1
    d.env.loop.run_ready(); d.clock[0] += dt
    show('after recipe release'); print('monitor', d.monitor())
    for ch in cs:
        print('harvest', d.harvest())
        acts = d.acts(); print('  acts', [a[0:2] if a[0] in ('acq','timer') else a[0] for a in acts])
        if ch >= len(acts): print('prune'); break
        d.clock[0] += dt; print('  do', acts[ch][0], acts[ch][1] if len(acts[ch])>1 and isinstance(acts[ch][1], (str,int)) else '')
        d.do(acts[ch]); show('after step'); print('  monitor', d.monitor())
    else:
        for r in range(6):
            print('closure settle', d.settle())
            for h in list(d.held): d.do(('rel', h))
            for i in range(len(d.env.loop.timers)): d.do(('timer', 0))
            show(f'closure round {r}')
        print('final settle', d.settle(), [t.done() for _, t in d.tasks])
        for db, t in d.tasks:
            if t.done(): print('   task', db, 'exc=', t.exception() if not t.cancelled() else 'cancelled')
finally:
    d.close()
