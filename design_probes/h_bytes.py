import sys
sys.path.insert(0, '/tmp/probe/stubs'); sys.path.insert(0, '/repo')
import stubmods
from edb.edgeql import codegen, ast as qlast

def unq(text: str):
    """reference for b'...' per helpers/bytes.rs (subset produced by codegen)"""
    if not (text.startswith("b'") and text.endswith("'") and len(text) >= 3): return None
    body = text[2:-1]; out = []; i = 0
    while i < len(body):
        c = body[i]
        if ord(c) > 0x7f: return None
        if c == '\\':
            if i + 1 >= len(body): return None
            d = body[i+1]
            if d == '\\': out.append(0x5c); i += 2
            elif d == "'": out.append(0x27); i += 2
            elif d == 't': out.append(9); i += 2
            elif d == 'n': out.append(10); i += 2
            elif d == 'r': out.append(13); i += 2
            elif d == 'x':
                h = body[i+2:i+4]
                if len(h) != 2: return None
                try: out.append(int(h, 16))
                except ValueError: return None
                i += 4
            else: return None
        elif c == "'": return None
        else: out.append(ord(c)); i += 1
    return bytes(out)

def chk(b: bytes) -> bool:
    """
    pre: len(b) <= 2
    post: _
    """
    t = codegen.generate_source(qlast.BytesConstant(value=b))
    return unq(t) == b
