import sys
sys.path.insert(0, '/tmp/probe/stubs'); sys.path.insert(0, '/repo')
import stubmods, immutables, types
from edb.edgeql import ast as qlast, qltypes
from edb.server.compiler import compiler as C, dbstate, enums
from edb.server import defines, config
from edb.schema import schema as s_schema
from edb.ir import statypes

EMPTY = immutables.Map()
class _T:
    monotonic_ns = staticmethod(lambda: 100); monotonic = staticmethod(lambda: 100.0)
dbstate.time = _T
spec = config.FlatSpec(
    config.Setting('default_transaction_isolation', type=statypes.TransactionIsolation, default=statypes.TransactionIsolation('Serializable')),
    config.Setting('default_transaction_access_mode', type=statypes.TransactionAccessMode, default=statypes.TransactionAccessMode('ReadWrite')),
)
cstate = types.SimpleNamespace(std_schema=s_schema.FlatSchema(), config_spec=spec)
st = dbstate.CompilerConnectionState(user_schema=s_schema.FlatSchema(), global_schema=s_schema.FlatSchema(),
    modaliases=immutables.Map({None:'default'}), session_config=EMPTY, database_config=EMPTY, system_config=EMPTY, cached_reflection=EMPTY)
ctx = C.CompileContext(compiler_state=cstate, state=st, output_format=enums.OutputFormat.BINARY, expected_cardinality_one=False,
    protocol_version=defines.CURRENT_PROTOCOL)
def run(stmt):
    try:
        comp, caps = C._compile_dispatch_ql(ctx, stmt)
        unit, _ = C._make_query_unit(ctx=ctx, stmt_ctx=ctx, stmt=stmt, is_script=False, is_trailing_stmt=True, comp=comp, capabilities=caps)
        print(type(stmt).__name__, caps, unit.sql, unit.tx_id, unit.sp_name, unit.sp_id, unit.tx_commit, unit.tx_rollback, unit.tx_savepoint_rollback, unit.capabilities)
    except Exception as e:
        print(type(stmt).__name__, 'EXC', type(e).__name__, e)
run(qlast.DeclareSavepoint(name='a'))
run(qlast.StartTransaction())
run(qlast.DeclareSavepoint(name='a'))
run(qlast.RollbackToSavepoint(name='a'))
run(qlast.ReleaseSavepoint(name='b'))
run(qlast.ReleaseSavepoint(name='a'))
run(qlast.SessionResetAllAliases())
run(qlast.CommitTransaction())
run(qlast.CommitTransaction())
g = dbstate.QueryUnitGroup()
print(g.capabilities)
