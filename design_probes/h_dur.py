import sys
sys.path.insert(0, '/tmp/probe/stubs'); sys.path.insert(0, '/repo')
import stubmods
from edb.ir import statypes

def dur_rt(n: int) -> bool:
    """
    pre: -10**13 < n < 10**13
    post: _
    """
    s = statypes.Duration(microseconds=n).to_iso8601()
    return statypes.Duration.from_iso8601(s).to_microseconds() == n

def mem_rt(n: int) -> bool:
    """
    pre: 0 <= n < 2**62
    post: _
    """
    s = statypes.ConfigMemory(n).to_str()
    return statypes.ConfigMemory(s).to_nbytes() == n
