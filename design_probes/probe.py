import sys, traceback
sys.path.insert(0,'/tmp/probe/stubs')
import stubmods
import importlib
mods = sys.argv[1:]
for m in mods:
    try:
        importlib.import_module(m); print("OK  ", m)
    except BaseException as e:
        tb = traceback.extract_tb(e.__traceback__)
        print("FAIL", m, type(e).__name__, e, "@", tb[-1].filename, tb[-1].lineno)
