import sys
sys.path.insert(0, '/tmp/probe/stubs'); sys.path.insert(0, '/repo'); sys.path.insert(0, '/tmp/probe')
import stubmods, asyncio
from miniloop import MiniLoop
from edb.server.connpool import pool as P
from h_pool import Env

DBS = ['a', 'b']

class Drv:
    def __init__(self, cap):
        self.clock = [0]
        P.time.monotonic = lambda: self.clock[0]
        self.env = Env(cap); self.cap = cap
        self.held = []; self.tasks = []; self.broken = 0
        asyncio._set_running_loop(self.env.loop)
    def harvest(self):
        for db, t in list(self.tasks):
            if t.done():
                self.tasks.remove((db, t))
                if not t.cancelled() and t.exception() is None:
                    c = t.result()
                    if c in [h[1] for h in self.held]: return False
                    if c not in self.env.live or c[0] != db: return False
                    self.held.append((db, c))
        return True
    def monitor(self):
        env = self.env
        if len(env.live) + len(env.pending) - self.broken > self.cap: return False
        return True
    def acts(self):
        env = self.env; a = []
        if env.loop.ready: a.append(('runall',))
        for db in DBS: a.append(('acq', db))
        for h in self.held: a.append(('rel', h))
        for p in env.pending: a.append(('conn', p))
        for d in env.disc: a.append(('disc', d))
        for i in range(len(env.loop.timers)): a.append(('timer', i))
        return a
    def do(self, a):
        env = self.env
        if a[0] == 'runall': env.loop.run_ready()
        elif a[0] == 'acq': self.tasks.append((a[1], env.loop.create_task(env.pool.acquire(a[1]))))
        elif a[0] == 'rel': self.held.remove(a[1]); env.pool.release(a[1][0], a[1][1])
        elif a[0] == 'conn': env.pending.remove(a[1]); a[1][1].set_result(None)
        elif a[0] == 'disc': env.disc.remove(a[1]); a[1][1].set_result(None)
        elif a[0] == 'timer': env.loop.fire_timer(a[1])
    def settle(self):
        env = self.env
        for _ in range(50):
            env.loop.run_ready()
            if not env.pending and not env.disc: break
            for p in list(env.pending): env.pending.remove(p); p[1].set_result(None)
            for d in list(env.disc): env.disc.remove(d); d[1].set_result(None)
        env.loop.run_ready()
        return self.harvest()
    def close(self):
        env = self.env
        for _, fut in env.pending:
            if not fut.done(): fut.cancel()
        for _, fut in env.disc:
            if not fut.done(): fut.cancel()
        for _, t in self.tasks: t.cancel()
        for b in env.pool._blocks.values():
            for w in list(b.conn_waiters):
                if not w.done(): w.cancel()
        env.loop.run_ready()
        asyncio._set_running_loop(None)

def recipe_suffix(cap: int, ha: int, ia: int, hb: int, tick: bool, dt: int, c0: int, c1: int, c2: int) -> bool:
    """
    pre: 1 <= cap <= 2
    pre: 0 <= ha <= 2 and 0 <= ia <= 1 and 0 <= hb <= 1
    pre: 0 <= dt <= 200
    pre: 0 <= c0 < 10 and 0 <= c1 < 10 and 0 <= c2 < 10
    post: _
    """
    d = Drv(cap)
    try:
        # recipe: held/idle connections via the public API
        for _ in range(ha + ia): d.do(('acq', 'a'))
        for _ in range(hb): d.do(('acq', 'b'))
        if not d.settle(): return False
        rel = 0
        for h in list(d.held):
            if h[0] == 'a' and rel < ia:
                d.do(('rel', h)); rel += 1
        d.env.loop.run_ready()
        d.clock[0] += dt
        if tick and d.env.loop.timers:
            d.do(('timer', 0)); d.env.loop.run_ready()
        if not d.monitor(): return False
        # symbolic suffix
        for ch in (c0, c1, c2):
            if not d.harvest(): return False
            acts = d.acts()
            if ch >= len(acts): return True
            d.clock[0] += dt
            d.do(acts[ch])
            if not d.monitor(): return False
        # fair closure: everything completes, holders release -> everyone served
        for _ in range(6):
            if not d.settle(): return False
            for h in list(d.held): d.do(('rel', h))
            for i in range(len(d.env.loop.timers)): d.do(('timer', 0))
        if not d.settle(): return False
        return all(t.done() for _, t in d.tasks)
    finally:
        d.close()
