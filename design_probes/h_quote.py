import sys
sys.path.insert(0, '/tmp/probe/stubs'); sys.path.insert(0, '/repo')
import stubmods
from edb.edgeql import quote as q

PROHIBITED = {0x202A,0x202B,0x202C,0x202D,0x202E,0x2066,0x2067,0x2068,0x2069}

def lex_sq(text: str):
    """Reference: tokenizer.rs parse_string + _unquote_string for non-raw, non-binary.
    returns (value, consumed) or None on error"""
    if not text or text[0] != "'":
        return None
    i = 1
    n = len(text)
    out = []
    while i < n:
        c = text[i]
        if c == '\\':
            if i + 1 >= n:
                return None
            d = text[i+1]
            if d == '(':
                return None
            if d in "\"\\/'":
                out.append(d)
            elif d == 'b': out.append('\b')
            elif d == 'f': out.append('\f')
            elif d == 'n': out.append('\n')
            elif d == 'r': out.append('\r')
            elif d == 't': out.append('\t')
            else:
                return None   # x/u/U/newline-continuation not produced by escape_string
            i += 2
            continue
        if c == "'":
            return ''.join(out), i + 1
        o = ord(c)
        if o == 0 or o in PROHIBITED:
            return None
        out.append(c)
        i += 1
    return None

def check_quote_literal(s: str) -> bool:
    """
    pre: len(s) <= 3
    pre: all(ord(c) != 0 and ord(c) not in PROHIBITED for c in s)
    post: _
    """
    t = q.quote_literal(s)
    r = lex_sq(t)
    return r is not None and r[0] == s and r[1] == len(t)
