import sys
sys.path.insert(0, '/tmp/probe/stubs'); sys.path.insert(0, '/repo'); sys.path.insert(0, '/tmp/probe')
import stubmods
import asyncio
from miniloop import MiniLoop
from edb.server.connpool import pool as P

class Env:
    def __init__(self, cap):
        self.loop = MiniLoop()
        self.pending = []   # (dbname, fut)
        self.live = set(); self.nconn = 0
        self.disc = []
        self.pool = P.Pool(connect=self.connect, disconnect=self.disconnect, max_capacity=cap)
        self.pool._loop = self.loop
    async def connect(self, dbname):
        fut = self.loop.create_future(); self.pending.append((dbname, fut))
        await fut
        self.nconn += 1; c = (dbname, self.nconn); self.live.add(c); return c
    async def disconnect(self, conn):
        fut = self.loop.create_future(); self.disc.append((conn, fut))
        await fut
        self.live.discard(conn)

def scenario(cap: int, t1: int, t2: int) -> bool:
    """
    pre: 1 <= cap <= 3
    pre: 0 <= t1 <= t2 <= 5
    post: _
    """
    clock = [0]
    P.time.monotonic = lambda: clock[0]
    env = Env(cap)
    asyncio._set_running_loop(env.loop)
    try:
        acq = [env.loop.create_task(env.pool.acquire('a')) for _ in range(2)]
        acq.append(env.loop.create_task(env.pool.acquire('b')))
        env.loop.run_ready()
        ok = env.pool._cur_capacity <= cap
        clock[0] = t1
        while env.pending:
            db, fut = env.pending.pop(0); fut.set_result(None); env.loop.run_ready()
            ok = ok and env.pool._cur_capacity <= cap
        clock[0] = t2
        for t in acq:
            if t.done():
                c = t.result(); env.pool.release(c[0], c)
                env.loop.run_ready()
        ok = ok and env.pool._cur_capacity <= cap and len(env.live) <= cap
        return ok
    finally:
        asyncio._set_running_loop(None)
