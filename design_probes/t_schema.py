import sys
sys.path.insert(0, '/tmp/probe/stubs'); sys.path.insert(0, '/repo')
import stubmods, uuid
from edb.schema import schema as s_schema, modules as s_mod, name as sn, objects as so
from edb.schema import annos as s_anno, objtypes as s_ot, pointers, links, properties, types as s_types, scalars
from edb.common import uuidgen
S = s_schema.FlatSchema()
S, m = s_mod.Module.create_in_schema(S, name=sn.UnqualName('default'), id=uuidgen.uuid4())
S, A = s_ot.ObjectType.create_in_schema(S, name=sn.QualName('default','A'), id=uuidgen.uuid4())
S, B = s_ot.ObjectType.create_in_schema(S, name=sn.QualName('default','B'), id=uuidgen.uuid4(), bases=so.ObjectList.create(S, [A]), ancestors=so.ObjectList.create(S, [A]))
print(B.get_bases(S).objects(S), S.get_referrers(A))
S2 = S.delete(B)
print(S2.get_referrers(A), S.get_referrers(A))
print([f.name for f in s_ot.ObjectType.get_object_reference_fields()])
tup_s, T = s_types.Tuple.create(S, element_types={'a': A, 'b': B}, named=True)
print(T, T.get_name(tup_s))
