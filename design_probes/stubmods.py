import sys, types, re, importlib.abc, importlib.machinery
def _kw():
    src = open('/repo/edb/edgeql-parser/src/keywords.rs').read()
    out = {}
    for name in ('UNRESERVED_KEYWORDS','PARTIAL_RESERVED_KEYWORDS','FUTURE_RESERVED_KEYWORDS','CURRENT_RESERVED_KEYWORDS'):
        m = re.search(name + r'[^=]*=\s*phf_set!\(([^)]*)\)', src, re.S)
        out[name] = frozenset(re.findall(r'"([^"]+)"', m.group(1))) if m else None
    return out
m = types.ModuleType('edb._edgeql_parser')
kw = _kw()
m.unreserved_keywords = kw['UNRESERVED_KEYWORDS']
m.partial_reserved_keywords = kw['PARTIAL_RESERVED_KEYWORDS']
m.future_reserved_keywords = kw['FUTURE_RESERVED_KEYWORDS']
m.current_reserved_keywords = kw['CURRENT_RESERVED_KEYWORDS']
class _E(Exception): pass
m.SyntaxError = _E
for n in ('ParserResult','Hasher','Entry','CSTNode','Production','Terminal','SourcePoint','OpaqueToken'):
    setattr(m, n, type(n, (), {}))
def _na(*a, **k): raise NotImplementedError('native parser not available')
for n in ('normalize','parse','preload_spec','save_spec','offset_of_line','tokenize','unpickle_token','unpack'):
    setattr(m, n, _na)
sys.modules['edb._edgeql_parser'] = m
print({k:(len(v) if v else v) for k,v in kw.items()}, file=sys.stderr)

import uuid as _uuid
class _Any(types.ModuleType):
    def __getattr__(self, name):
        if name.startswith('__'):
            raise AttributeError(name)
        cls = type(name, (), {'__init__': lambda self,*a,**k: None, '__init_subclass__': classmethod(lambda cls, **kw: None)})
        setattr(self, name, cls)
        return cls
STUBS = ['parsing','edb.graphql','graphql','graphql.language','graphql.error','graphql.language.lexer','graphql.language.ast','edb.common.turbo_uuid','edb.server._rust_native','edb.server._rust_native._conn_pool',
 'edb.server._rust_native._pg_rust','edb.server._rust_native._jwt','edb.server._rust_native._gel_http',
 'edb.pgsql.parser.parser','edb.server.pgcon.pgcon','edb.server.compiler.rpc','edb.server.dbview.dbview',
 'edb.server.cache.stmt_cache','edb.protocol.protocol','edb.graphql.extension','edb._graphql_rewrite','edb.server._http','edb.server.protocol.binary',
 'edb.server.protocol.execute','edb.server.protocol.frontend','edb.server.protocol.protocol','edb.server.protocol.args_ser','edb.server.protocol.auth_helpers','edb.server.pgproto.pgproto', 'edb.server.pgproto']
class _Finder(importlib.abc.MetaPathFinder, importlib.abc.Loader):
    def find_spec(self, name, path, target=None):
        if name in STUBS or name == 'graphql' or name.startswith('graphql.'):
            return importlib.machinery.ModuleSpec(name, self, is_package=(name in ('edb.server._rust_native','edb.server.pgproto') or name.startswith('graphql')))
    def create_module(self, spec):
        m = _Any(spec.name)
        if spec.name == 'edb.common.turbo_uuid':
            class UUID(_uuid.UUID):
                def __init__(self, inp):
                    if isinstance(inp, (bytes, bytearray)):
                        _uuid.UUID.__init__(self, bytes=bytes(inp))
                    else:
                        _uuid.UUID.__init__(self, str(inp))
            m.UUID = UUID
        return m
    def exec_module(self, module): pass
sys.meta_path.insert(0, _Finder())
