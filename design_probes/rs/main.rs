#[path = "/repo/edb/edgeql-parser/src/keywords.rs"] pub mod keywords;
#[path = "shim_position.rs"] pub mod position;
#[path = "/repo/edb/edgeql-parser/src/tokenizer.rs"] pub mod tokenizer;
#[path = "/repo/edb/edgeql-parser/src/validation.rs"] pub mod validation;
#[path = "/repo/edb/edgeql-parser/src/helpers/mod.rs"] pub mod helpers;
use std::io::{self, BufRead, Write};
fn unhex(s: &str) -> String {
    let bytes: Vec<u8> = (0..s.len()/2).map(|i| u8::from_str_radix(&s[2*i..2*i+2], 16).unwrap()).collect();
    String::from_utf8(bytes).unwrap()
}
fn hex(s: &[u8]) -> String { s.iter().map(|b| format!("{:02x}", b)).collect() }
fn main() {
    let stdin = io::stdin();
    let out = io::stdout();
    let mut out = out.lock();
    for line in stdin.lock().lines() {
        let line = line.unwrap();
        let text = unhex(line.trim());
        let tok = tokenizer::Tokenizer::new(&text).validated_values();
        let mut parts: Vec<String> = vec![];
        for t in tok {
            match t {
                Ok(t) => {
                    let v = match &t.value {
                        Some(tokenizer::Value::String(s)) => format!("S:{}", hex(s.as_bytes())),
                        Some(tokenizer::Value::Bytes(b)) => format!("B:{}", hex(b)),
                        Some(other) => format!("O:{}", hex(format!("{:?}", other).as_bytes())),
                        None => "N:".to_string(),
                    };
                    parts.push(format!("{:?}|{}|{}", t.kind, hex(t.text.as_bytes()), v).replace(' ', ""));
                }
                Err(e) => { parts.push(format!("ERR|{}", hex(e.message.as_bytes()))); break; }
            }
        }
        writeln!(out, "{}", parts.join(" ")).unwrap();
    }
}
