import sys
sys.path.insert(0, '/tmp/probe/stubs'); sys.path.insert(0, '/repo')
import stubmods, uuid, immutables
from edb.common import uuidgen
K1 = uuid.UUID(int=5)
K2 = uuidgen.UUID(uuid.UUID(int=6).bytes)
def plain(x: int) -> bool:
    """
    pre: 0 <= x <= 3
    post: _
    """
    m = immutables.Map().set(K1, x)
    return m[K1] == x
def stub(x: int) -> bool:
    """
    pre: 0 <= x <= 3
    post: _
    """
    m = immutables.Map().set(K2, x)
    return m[K2] == x
