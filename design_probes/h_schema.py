import sys
sys.path.insert(0, '/tmp/probe/stubs'); sys.path.insert(0, '/repo')
import stubmods, uuid
from edb.schema import schema as s_schema, modules as s_mod, name as sn, objects as so, objtypes as s_ot
from edb.common import uuidgen

IDS = [uuidgen.UUID(uuid.UUID(int=i+1).bytes) for i in range(4)]

def build(b10: bool, b20: bool, b21: bool):
    S = s_schema.FlatSchema()
    S, m = s_mod.Module.create_in_schema(S, name=sn.UnqualName('default'), id=IDS[3])
    objs = []
    S, A = s_ot.ObjectType.create_in_schema(S, name=sn.QualName('default', 'A'), id=IDS[0]); objs.append(A)
    bs = [A] if b10 else []
    S, B = s_ot.ObjectType.create_in_schema(S, name=sn.QualName('default', 'B'), id=IDS[1], bases=so.ObjectList.create(S, bs)); objs.append(B)
    bs = ([A] if b20 else []) + ([B] if b21 else [])
    S, C = s_ot.ObjectType.create_in_schema(S, name=sn.QualName('default', 'C'), id=IDS[2], bases=so.ObjectList.create(S, bs)); objs.append(C)
    return S, objs

def consistent(S, objs) -> bool:
    live = [o for o in objs if S.has_object(o.id)]
    for t in objs:
        expect = set()
        for o in live:
            if t in o.get_bases(S).objects(S): expect.add(o)
        got = set(S.get_referrers(t, scls_type=s_ot.ObjectType, field_name='bases')) if S.has_object(t.id) else set()
        if S.has_object(t.id) and got != expect: return False
        if not S.has_object(t.id) and expect: return False
    return True

def step(b10: bool, b20: bool, b21: bool, op: int, tgt: int, n0: bool, n1: bool) -> bool:
    """
    pre: 0 <= op <= 1 and 1 <= tgt <= 2
    post: _
    """
    S, objs = build(b10, b20, b21)
    if not consistent(S, objs): return False
    t = objs[1] if tgt == 1 else objs[2]
    if op == 0:
        new = ([objs[0]] if n0 else []) + ([objs[1]] if (n1 and tgt == 2) else [])
        S2 = S.set_obj_field(t, 'bases', so.ObjectList.create(S, new))
    else:
        if S.get_referrers(t): return True     # deletion of referenced object is the command layer's business
        S2 = S.delete(t)
    return consistent(S2, objs) and consistent(S, objs)
