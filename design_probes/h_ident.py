import sys
sys.path.insert(0, '/tmp/probe/stubs'); sys.path.insert(0, '/repo')
import stubmods
from typing import List
from edb.edgeql import quote as q
from edb.pgsql import common as pgc

PROHIBITED = {0, 0x202A,0x202B,0x202C,0x202D,0x202E,0x2066,0x2067,0x2068,0x2069}

def lex_ident(text: str):
    """reference: tokenizer.rs ident / backtick name. returns value or None"""
    if not text: return None
    c = text[0]
    if c == '`':
        i = 1; n = len(text); out = []
        while i < n:
            ch = text[i]
            if ch == '`':
                if i + 1 < n and text[i+1] == '`':
                    out.append('`'); i += 2; continue
                if i != n - 1: return None     # trailing garbage
                val = ''.join(out)
                if text.startswith('`@') or text.startswith('`$'): return None
                if '::' in text: return None
                if text.startswith('`__') and text.endswith('__`'): return None
                if i == 1: return None
                return val
            if ord(ch) in PROHIBITED: return None
            out.append(ch); i += 1
        return None
    if c == '_' or c.isalpha():
        for ch in text[1:]:
            if not (ch == '_' or ch.isalnum()): return None
        return text
    return None

def check_ident(s: str) -> bool:
    """
    pre: 1 <= len(s) <= 3
    pre: all(ord(c) not in PROHIBITED for c in s)
    pre: '::' not in s and not s.startswith('@') and not s.startswith('$')
    pre: not (s.startswith('__') and s.endswith('__'))
    post: _
    """
    t = q.quote_ident(s)
    return lex_ident(t) == s

def check_dollar(s: str) -> bool:
    """
    pre: len(s) <= 4
    post: _
    """
    t = q.dollar_quote_literal(s)
    # reference lexer for $$ / $name$ strings
    if not t.startswith('$'): return False
    j = t.find('$', 1)
    if j < 0: return False
    marker = t[:j+1]
    rest = t[j+1:]
    e = rest.find(marker)
    if e < 0: return False
    return rest[:e] == s and e + len(marker) == len(rest)

def check_pg_ident(s: str) -> bool:
    """
    pre: 1 <= len(s) <= 3
    pre: all(ord(c) != 0 for c in s)
    post: _
    """
    t = pgc.quote_ident(s)
    if t.startswith('"'):
        if not t.endswith('"') or len(t) < 2: return False
        body = t[1:-1]
        # "" -> "
        i = 0; out = []
        while i < len(body):
            if body[i] == '"':
                if i + 1 < len(body) and body[i+1] == '"':
                    out.append('"'); i += 2; continue
                return False
            out.append(body[i]); i += 1
        return ''.join(out) == s
    else:
        # unquoted: must be ident chars and fold to itself
        c = t[0]
        if not (c == '_' or ('a' <= c <= 'z') or ord(c) >= 0x80): return False
        for ch in t[1:]:
            if not (ch == '_' or ch == '$' or ('a' <= ch <= 'z') or ('0' <= ch <= '9') or ord(ch) >= 0x80): return False
        return t == s
