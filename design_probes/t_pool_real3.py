import sys, asyncio, time
sys.path.insert(0, '/tmp/probe/stubs'); sys.path.insert(0, '/repo')
import stubmods
from edb.server.connpool import pool as P

async def main():
    n = [0]; disc_started = asyncio.Event()
    async def connect(db):
        await asyncio.sleep(0.001); n[0] += 1; return (db, n[0])
    async def disconnect(conn):
        disc_started.set()
        await asyncio.sleep(0.003)         # a quick disconnect (3 ms < 10 ms tick)
    pool = P.Pool(connect=connect, disconnect=disconnect, max_capacity=2, min_idle_time_before_gc=0.05)
    c1 = await pool.acquire('a'); c2 = await pool.acquire('a')
    pool.release('a', c2)                  # one idle connection in block a
    await asyncio.wait_for(disc_started.wait(), 5)   # GC decided to discard it; disconnect is in flight
    print('capacity while disconnecting:', pool.current_capacity)
    t0 = time.monotonic()
    task = asyncio.ensure_future(pool.acquire('b'))  # first request for a new database
    await asyncio.sleep(0)                 # let acquire(b) run up to its wait
    pool.release('a', c1)                  # every holder releases, right away
    await asyncio.sleep(0.5)
    print('disconnect done; capacity:', pool.current_capacity, 'max:', pool.max_capacity)
    try:
        c = await asyncio.wait_for(task, 20)
        print('acquire(b) returned', c, 'after %.2fs' % (time.monotonic() - t0))
    except asyncio.TimeoutError:
        b = pool._blocks['b']
        print('acquire(b) STILL BLOCKED after 20 s: capacity', pool.current_capacity, '/', pool.max_capacity,
              'blocks', {k: dict(conns=v.count_conns(), idle=v.count_queued_conns(), waiters=v.count_waiters(), quota=v.quota) for k, v in pool._blocks.items()})
asyncio.run(main())
