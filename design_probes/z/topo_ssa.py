# SSA (fresh-constant) version of the predicated encoding of sort_ex: hand prototype to size N=5.
import sys, time
import z3
W4 = 4
class Enc:
    def __init__(self):
        self.defs = []; self.n = 0
    def fb(self, e):      # fresh bool defined as e
        if z3.is_true(e) or z3.is_false(e) or z3.is_const(e): return e
        self.n += 1; v = z3.Bool(f'g{self.n}'); self.defs.append(v == e); return v
    def fv(self, e):
        if z3.is_bv_value(e) or z3.is_const(e): return e
        self.n += 1; v = z3.BitVec(f'v{self.n}', W4); self.defs.append(v == e); return v

def build(N):
    E = Enc()
    H = [[z3.Bool(f'h_{i}_{j}') for j in range(N)] for i in range(N)]
    Wk = [[z3.Bool(f'w_{i}_{j}') for j in range(N)] for i in range(N)]
    F, T = z3.BoolVal(False), z3.BoolVal(True)
    one, zero = z3.BitVecVal(1, W4), z3.BitVecVal(0, W4)
    st = dict(visiting=[F]*N, vweak=[F]*N, visited=[F]*N, pos=[z3.BitVecVal(15, W4)]*N, count=zero, nvw=zero)
    frames = [0]
    def setb(name, k, g, val):
        lst = list(st[name]); lst[k] = E.fb(z3.If(g, val, lst[k])); st[name] = lst
    def visit(item, pc, weak_link, path):
        frames[0] += 1
        if item in path:
            return pc
        act = E.fb(z3.And(pc, z3.Not(st['visited'][item])))   # item not in visiting holds since not on path
        if z3.is_false(act): return F
        setb('visiting', item, act, T)
        aw = E.fb(z3.And(act, weak_link))
        setb('vweak', item, aw, T)
        st['nvw'] = E.fv(z3.If(aw, st['nvw'] + one, st['nvw']))
        inner = F; live = act
        npath = path + (item,)
        for n in range(N):
            g = E.fb(z3.And(live, Wk[item][n]))
            if z3.is_false(g): continue
            e = visit(n, g, T, npath)
            e2 = E.fb(z3.And(e, st['nvw'] != zero))
            inner = E.fb(z3.Or(inner, e2)); live = E.fb(z3.And(live, z3.Not(e2)))
        for n in range(N):
            g = E.fb(z3.And(live, H[item][n]))
            if z3.is_false(g): continue
            e = visit(n, g, weak_link, npath)
            inner = E.fb(z3.Or(inner, e)); live = E.fb(z3.And(live, z3.Not(e)))
        lst = list(st['pos']); lst[item] = E.fv(z3.If(live, st['count'], lst[item])); st['pos'] = lst
        st['count'] = E.fv(z3.If(live, st['count'] + one, st['count']))
        setb('visited', item, live, T)
        out_exc = E.fb(z3.And(inner, st['nvw'] != one))
        setb('visiting', item, act, F)
        setb('vweak', item, aw, F)
        st['nvw'] = E.fv(z3.If(aw, st['nvw'] - one, st['nvw']))
        return out_exc
    raised = F
    for key in range(N):
        e = visit(key, E.fb(z3.Not(raised)), F, ())
        raised = E.fb(z3.Or(raised, e))
    return E, H, Wk, st, raised, frames[0]

def reach(N, A):
    R = [[A[i][j] for j in range(N)] for i in range(N)]
    for _ in range(max(1, (N-1).bit_length())+1):
        R = [[z3.Or(R[i][j], z3.Or([z3.And(R[i][k], R[k][j]) for k in range(N)])) for j in range(N)] for i in range(N)]
    return z3.Or([R[i][i] for i in range(N)])

def main(N):
    t0 = time.time(); E, H, Wk, st, raised, nfr = build(N); t1 = time.time()
    cyc = reach(N, H); cyc_all = reach(N, [[z3.Or(H[i][j], Wk[i][j]) for j in range(N)] for i in range(N)])
    props = {
      'cycle_iff': raised != cyc,
      'perm': z3.And(z3.Not(raised), z3.Or(st['count'] != z3.BitVecVal(N, W4), z3.Or([st['pos'][i] == 15 for i in range(N)]), z3.Or([st['pos'][a] == st['pos'][b] for a in range(N) for b in range(a+1, N)]))),
      'hard_order': z3.And(z3.Not(raised), z3.Or([z3.And(H[i][j], z3.UGE(st['pos'][j], st['pos'][i])) for i in range(N) for j in range(N) if i != j])),
      'weak_order': z3.And(z3.Not(raised), z3.Not(cyc_all), z3.Or([z3.And(Wk[i][j], z3.UGE(st['pos'][j], st['pos'][i])) for i in range(N) for j in range(N) if i != j])),
    }
    print(f'N={N} frames={nfr} defs={len(E.defs)} build={t1-t0:.1f}s', flush=True)
    for name, neg in props.items():
        s = z3.Then('simplify', 'solve-eqs', 'bit-blast', 'sat').solver(); s.add(E.defs); s.add(neg)
        t = time.time(); r = s.check(); print(f'  {name}: {r} ({time.time()-t:.1f}s)', flush=True)
main(int(sys.argv[1]))
