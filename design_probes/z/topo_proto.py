# Hand prototype of the predicated (guarded) symbolic execution of sort_ex, to estimate solver cost.
import sys, time, itertools
import z3

def build(N, with_weak=True):
    H = [[z3.Bool(f'h_{i}_{j}') for j in range(N)] for i in range(N)]
    W = [[z3.Bool(f'w_{i}_{j}') if with_weak else z3.BoolVal(False) for j in range(N)] for i in range(N)]
    st = dict(
        visiting=[z3.BoolVal(False)]*N, vweak=[z3.BoolVal(False)]*N, visited=[z3.BoolVal(False)]*N,
        pos=[z3.IntVal(-1)]*N, count=z3.IntVal(0),
    )
    solver = z3.Solver()
    nframes = [0]
    def ite_list(c, a, b): return [z3.If(c, x, y) for x, y in zip(a, b)]
    def nvw(st): return z3.Sum([z3.If(b, 1, 0) for b in st['vweak']])
    def feasible(pc):
        pc = z3.simplify(pc)
        if z3.is_false(pc): return False
        return True
    # visit returns exc guard (condition under which a CycleError propagates out), all under pc
    def visit(item, pc, weak_link, path, st):
        # weak_link: z3 Bool ; path: tuple of concrete ancestors
        nframes[0] += 1
        if item in path:
            # item definitely in visiting (under pc): raise
            return pc
        invis = st['visiting'][item]
        exc = z3.And(pc, invis)          # raise under pc & invis (invis can be true only if ancestor -> handled above, but keep general)
        act = z3.simplify(z3.And(pc, z3.Not(invis), z3.Not(st['visited'][item])))
        if not feasible(act):
            return z3.simplify(exc)
        # enter
        st['visiting'] = [z3.If(act, True, v) if k == item else v for k, v in enumerate(st['visiting'])]
        st['vweak'] = [z3.If(z3.And(act, weak_link), True, v) if k == item else v for k, v in enumerate(st['vweak'])]
        inner_exc = z3.BoolVal(False)     # pending exception inside try body
        live = act
        npath = path + (item,)
        for n in range(N):
            g = z3.simplify(z3.And(live, W[item][n]))
            if feasible(g):
                e = visit(n, g, z3.BoolVal(True), npath, st)
                # except CycleError: if len(visiting_weak)==0: pass else raise
                swallow = z3.And(e, nvw(st) == 0)
                e2 = z3.And(e, z3.Not(nvw(st) == 0))
                inner_exc = z3.Or(inner_exc, e2)
                live = z3.And(live, z3.Not(e2))
        for n in range(N):
            g = z3.simplify(z3.And(live, H[item][n]))
            if feasible(g):
                e = visit(n, g, weak_link, npath, st)
                inner_exc = z3.Or(inner_exc, e)
                live = z3.And(live, z3.Not(e))
        # order.append(item); visited.add(item) under live
        st['pos'] = [z3.If(live, st['count'], v) if k == item else v for k, v in enumerate(st['pos'])]
        st['count'] = z3.If(live, st['count'] + 1, st['count'])
        st['visited'] = [z3.If(live, True, v) if k == item else v for k, v in enumerate(st['visited'])]
        # except CycleError: if len(visiting_weak) == 1: pass else raise
        swallowed = z3.And(inner_exc, nvw(st) == 1)
        out_exc = z3.And(inner_exc, z3.Not(nvw(st) == 1))
        # finally (under act)
        st['visiting'] = [z3.If(act, False, v) if k == item else v for k, v in enumerate(st['visiting'])]
        st['vweak'] = [z3.If(z3.And(act, weak_link), False, v) if k == item else v for k, v in enumerate(st['vweak'])]
        return z3.simplify(z3.Or(exc, out_exc))
    raised = z3.BoolVal(False)
    for key in range(N):
        e = visit(key, z3.Not(raised), z3.BoolVal(False), (), st)
        raised = z3.Or(raised, e)
    return H, W, st, raised, nframes[0]

def hard_cycle(N, H):
    # reach[k][i][j]: path of length <= 2^k
    R = [[H[i][j] for j in range(N)] for i in range(N)]
    for _ in range(max(1, (N-1).bit_length())+1):
        R = [[z3.Or(R[i][j], z3.Or([z3.And(R[i][k], R[k][j]) for k in range(N)])) for j in range(N)] for i in range(N)]
    return z3.Or([R[i][i] for i in range(N)]), R

def main(N):
    t0 = time.time()
    H, W, st, raised, nfr = build(N)
    t1 = time.time()
    cyc, _ = hard_cycle(N, H)
    HW = [[z3.Or(H[i][j], W[i][j]) for j in range(N)] for i in range(N)]
    cyc_all, _ = hard_cycle(N, HW)
    props = {
      'cycle_iff': raised != cyc,
      'perm': z3.And(z3.Not(raised), z3.Or(st['count'] != N, z3.Or([st['pos'][i] < 0 for i in range(N)]), z3.Not(z3.Distinct(st['pos'])))),
      'hard_order': z3.And(z3.Not(raised), z3.Or([z3.And(H[i][j], st['pos'][j] >= st['pos'][i]) for i in range(N) for j in range(N) if i != j])),
      'weak_order': z3.And(z3.Not(raised), z3.Not(cyc_all), z3.Or([z3.And(W[i][j], st['pos'][j] >= st['pos'][i]) for i in range(N) for j in range(N) if i != j])),
    }
    print(f'N={N} frames={nfr} build={t1-t0:.1f}s')
    for name, neg in props.items():
        s = z3.Solver(); s.add(neg)
        t = time.time(); r = s.check()
        print(f'  {name}: {r} ({time.time()-t:.1f}s)')
        if r == z3.sat:
            m = s.model()
            print('   H', [(i,j) for i in range(N) for j in range(N) if z3.is_true(m.eval(H[i][j]))], 'W', [(i,j) for i in range(N) for j in range(N) if z3.is_true(m.eval(W[i][j]))])
main(int(sys.argv[1]))
