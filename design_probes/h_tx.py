import sys
sys.path.insert(0, '/tmp/probe/stubs'); sys.path.insert(0, '/repo')
import stubmods
from typing import List
import immutables
from edb import errors
from edb.server.compiler import dbstate
from edb.schema import schema as s_schema

EMPTY = immutables.Map()
class _T:
    @staticmethod
    def monotonic_ns(): return 100
    @staticmethod
    def monotonic(): return 100.0
dbstate.time = _T

class Tok:
    """opaque state token standing for a schema / alias map / config map"""
    def __init__(self, v): self.v = v

def mk(depth: int, names: List[str], vals: List[int], implicit: bool):
    root = s_schema.FlatSchema()
    cs = dbstate.CompilerConnectionState(user_schema=root, global_schema=s_schema.FlatSchema(),
        modaliases=vals[0], session_config=EMPTY, database_config=EMPTY, system_config=EMPTY, cached_reflection=EMPTY)
    cs._tx_count = 100
    tx = cs.current_tx()
    model_sps = []
    if not implicit:
        cs.start_tx()
        for i in range(depth):
            tx.update_modaliases(vals[i+1])
            tx.declare_savepoint(names[i])
            model_sps.append((names[i], vals[i+1]))
    tx.update_modaliases(vals[depth+1])
    return cs, tx, model_sps

def step_rollback_to(depth: int, n0: str, n1: str, n2: str, v0: int, v1: int, v2: int, v3: int, v4: int, target: str) -> bool:
    """
    pre: 0 <= depth <= 3
    pre: len(n0) <= 1 and len(n1) <= 1 and len(n2) <= 1 and len(target) <= 1
    post: _
    """
    cs, tx, sps = mk(depth, [n0, n1, n2], [v0, v1, v2, v3, v4], False)
    # model: find most recent savepoint named target
    idx = None
    for i in range(len(sps) - 1, -1, -1):
        if sps[i][0] == target:
            idx = i; break
    try:
        tx.rollback_to_savepoint(target)
    except errors.TransactionError:
        return idx is None and tx.get_modaliases() is not None and len(tx._savepoints) == depth
    if idx is None:
        return False
    ok = tx.get_modaliases() == sps[idx][1]
    ok = ok and [sp.name for sp in tx._savepoints.values()] == [s[0] for s in sps[:idx+1]]
    return ok

NAMES = ['a', 'b', 'c', 'd']
def step_rollback_to2(depth: int, i0: int, i1: int, i2: int, v0: int, v1: int, v2: int, v3: int, v4: int, it: int) -> bool:
    """
    pre: 0 <= depth <= 3
    pre: 0 <= i0 <= 3 and 0 <= i1 <= 3 and 0 <= i2 <= 3 and 0 <= it <= 3
    post: _
    """
    return step_rollback_to(depth, NAMES[i0], NAMES[i1], NAMES[i2], v0, v1, v2, v3, v4, NAMES[it])

def pick(i: int) -> str:
    if i == 0: return 'a'
    if i == 1: return 'b'
    if i == 2: return 'c'
    return 'd'

def step_rollback_to3(depth: int, i0: int, i1: int, i2: int, v0: int, v1: int, v2: int, v3: int, v4: int, it: int) -> bool:
    """
    pre: 0 <= depth <= 3
    pre: 0 <= i0 <= 3 and 0 <= i1 <= 3 and 0 <= i2 <= 3 and 0 <= it <= 3
    post: _
    """
    return step_rollback_to(depth, pick(i0), pick(i1), pick(i2), v0, v1, v2, v3, v4, pick(it))
