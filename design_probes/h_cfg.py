import sys
sys.path.insert(0, '/tmp/probe/stubs'); sys.path.insert(0, '/repo')
import stubmods, immutables
from edb import errors
from edb.server import config
from edb.server.config import ops
from edb.edgeql import qltypes

SPEC = config.FlatSpec(
    config.Setting('i', type=int, default=7),
    config.Setting('b', type=bool, default=False),
    config.Setting('s', type=str, default='d'),
)
SCOPES = [qltypes.ConfigScope.SESSION, qltypes.ConfigScope.DATABASE, qltypes.ConfigScope.INSTANCE]
NAMES = ['i', 'b', 's']

def pickn(k: int):
    if k == 0: return 'i'
    if k == 1: return 'b'
    return 's'

def step(p0: int, p1: int, p2: int, v0: int, v1: int, v2: int, op: int, sc: int, nm: int, val: int, wrong: bool) -> bool:
    """
    pre: 0 <= p0 <= 1 and 0 <= p1 <= 1 and 0 <= p2 <= 1
    pre: 0 <= op <= 1 and 0 <= sc <= 2 and 0 <= nm <= 0
    post: _
    """
    # pre-state: setting 'i' present or absent in each scope with symbolic values
    stores = [immutables.Map(), immutables.Map(), immutables.Map()]
    model = [None, None, None]
    for k, (p, v) in enumerate(((p0, v0), (p1, v1), (p2, v2))):
        if p == 1:
            stores[k] = ops.Operation(ops.OpCode.CONFIG_SET, SCOPES[k], 'i', v).apply(SPEC, stores[k])
            model[k] = v
    name = pickn(nm)
    opcode = ops.OpCode.CONFIG_SET if op == 0 else ops.OpCode.CONFIG_RESET
    value = 'oops' if wrong else val
    o = ops.Operation(opcode, SCOPES[sc], name, value if op == 0 else None)
    before = stores[sc]
    try:
        stores[sc] = o.apply(SPEC, stores[sc])
    except errors.ConfigurationError:
        return op == 0 and wrong and stores[sc] is before
    if op == 0:
        if wrong: return False
        model[sc] = val
    else:
        model[sc] = None
    exp = 7
    for k in (2, 1, 0):
        if model[k] is not None: exp = model[k]
    got = config.lookup('i', stores[0], stores[1], stores[2], spec=SPEC)
    return got == exp
