import sys
sys.path.insert(0, '/tmp/probe/stubs'); sys.path.insert(0, '/repo')
import stubmods
from typing import List, Tuple
from edb.server.compiler import sertypes as S
from edb.server.compiler import enums
import uuid

# injective stand-in for uuid5: identity on the key string (assumption: SHA-1 collision-free)
S.uuidgen.uuid5 = lambda ns, s: ('ID', s)
U = [uuid.UUID(int=1), uuid.UUID(int=2)]

def ok_name(n: str) -> bool:
    return len(n) >= 1 and '\x00' not in n and '::' not in n

def shape_key_injective(n1: List[str], n2: List[str], t1: List[int], t2: List[int]) -> bool:
    """
    pre: len(n1) == len(t1) and len(n2) == len(t2) and 1 <= len(n1) <= 2 and 1 <= len(n2) <= 2
    pre: all(ok_name(x) and len(x) <= 3 for x in n1) and all(ok_name(x) and len(x) <= 3 for x in n2)
    pre: all(0 <= i <= 1 for i in t1) and all(0 <= i <= 1 for i in t2)
    post: _
    """
    c1 = [enums.Cardinality.ONE] * len(n1)
    c2 = [enums.Cardinality.ONE] * len(n2)
    a = S._get_object_shape_id('default::T', [U[i] for i in t1], n1, c1, links_props=[False]*len(n1), links=[False]*len(n1))
    b = S._get_object_shape_id('default::T', [U[i] for i in t2], n2, c2, links_props=[False]*len(n2), links=[False]*len(n2))
    if a == b:
        return n1 == n2 and t1 == t2
    return True

def shape_key_injective2(a1: str, a2: str, b1: str, b2: str) -> bool:
    """
    pre: ok_name(a1) and ok_name(a2) and ok_name(b1) and ok_name(b2)
    pre: len(a1) <= 3 and len(a2) <= 3 and len(b1) <= 3 and len(b2) <= 3
    post: _
    """
    n1 = [a1, a2]; n2 = [b1, b2]
    c = [enums.Cardinality.ONE] * 2
    a = S._get_object_shape_id('default::T', [U[0], U[0]], n1, c, links_props=[False]*2, links=[False]*2)
    b = S._get_object_shape_id('default::T', [U[0], U[0]], n2, c, links_props=[False]*2, links=[False]*2)
    if a == b:
        return a1 == b1 and a2 == b2
    return True
