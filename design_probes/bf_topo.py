import sys, itertools
sys.path.insert(0,'/repo')
from edb.common import topological as T
from edb.common.ordered import OrderedSet

def has_cycle(n, edges):
    # edges: set of (i,j)
    color = [0]*n
    adj = {i:[j for (a,j) in edges if a==i] for i in range(n)}
    def dfs(u):
        color[u]=1
        for v in adj[u]:
            if color[v]==1: return True
            if color[v]==0 and dfs(v): return True
        color[u]=2
        return False
    return any(color[i]==0 and dfs(i) for i in range(n))

def check(n, kinds, with_lc=False):
    pairs = [(i,j) for i in range(n) for j in range(n)]
    bad = {}
    cnt = 0
    for assign in itertools.product(kinds, repeat=len(pairs)):
        cnt += 1
        g = {}
        hard=set(); weak=set(); lc=set()
        for i in range(n):
            g[i] = T.DepGraphEntry(item=i, deps=OrderedSet(), weak_deps=OrderedSet(), merge=None, loop_control=OrderedSet())
        for (i,j),k in zip(pairs, assign):
            if k=='h': g[i].deps.add(j); hard.add((i,j))
            elif k=='w': g[i].weak_deps.add(j); weak.add((i,j))
            elif k=='l': g[i].loop_control.add(j); lc.add((i,j))
        hc = has_cycle(n, hard)
        try:
            res = [k for k,_ in T.sort_ex(g)]
            exc = None
        except T.CycleError as e:
            exc = e; res=None
        if exc is not None:
            if not hc and not lc:
                bad.setdefault('spurious_cycle', []).append(assign)
            continue
        if hc:
            bad.setdefault('missed_cycle', []).append(assign); continue
        if sorted(res) != list(range(n)):
            bad.setdefault('not_perm', []).append((assign,res)); continue
        pos = {k:i for i,k in enumerate(res)}
        for (i,j) in hard:
            if pos[j] >= pos[i]: bad.setdefault('hard_violated', []).append((assign,res)); break
        if not has_cycle(n, hard|weak) and not lc:
            for (i,j) in weak:
                if pos[j] >= pos[i]: bad.setdefault('weak_ignored', []).append((assign,res)); break
    return cnt, {k:(len(v), v[:2]) for k,v in bad.items()}

print(check(2, ['n','h','w']))
print(check(3, ['n','h','w']))
print(check(2, ['n','h','w','l']))
print(check(3, ['n','h','l']))
