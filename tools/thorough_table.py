#!/usr/bin/env python3
"""Summarises the logs of one run of the thorough tier (one file per property, the output of
`check.py <id> --tier thorough`) as a markdown table.  usage: thorough_table.py [dir [prefix]]"""
import glob
import os
import re
import sys


def main(d='/tmp', prefix='t_'):
    print('| property | violations | obligations | discharged | not discharged | paths | cpu s | wall s |')
    print('|---|---|---|---|---|---|---|---|')
    for f in sorted(glob.glob(os.path.join(d, prefix + 'C??.log'))):
        txt = open(f).read()
        m = re.search(r'(C\d\d) thorough: obligations=(\d+) discharged=(\d+) not_discharged=(\d+) paths=(\d+) cpu=(\d+)s wall=(\d+)s', txt)
        if not m:
            print(f'| {os.path.basename(f)[len(prefix):-4]} | (no summary: still running, or stopped by the time cap) | | | | | | |')
            continue
        viol = len(re.findall(r'^VIOLATION ', txt, re.M))
        g = m.groups()
        print('| ' + ' | '.join([g[0], str(viol)] + list(g[1:])) + ' |')


if __name__ == '__main__':
    main(*sys.argv[1:3])
