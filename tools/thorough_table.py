#!/usr/bin/env python3
"""Summarises a sequential run of the thorough tier (the log written by running
`check.py <id> --tier thorough` for every property) as a markdown table."""
import re
import sys


def main(path):
    txt = open(path).read()
    rows = []
    for m in re.finditer(r'^(C\d\d) rc=(\d+)\n(?:.*\n)*?(?:C\d\d thorough: obligations=(\d+) discharged=(\d+) not_discharged=(\d+) paths=(\d+) cpu=(\d+)s wall=(\d+)s)',
                         txt, re.M):
        rows.append(m.groups())
    print('| property | exit | obligations | discharged | not discharged | paths | cpu s | wall s |')
    print('|---|---|---|---|---|---|---|---|')
    for r in rows:
        print('| ' + ' | '.join(r) + ' |')


if __name__ == '__main__':
    main(sys.argv[1] if len(sys.argv) > 1 else '/tmp/run_thorough_all.log')
