#!/usr/bin/env python3
"""Renders /verif/seeded/*/meta.json (written by tools/seed_eval.py) as seeded/RESULTS.md."""
import json
import os

VERIF = os.path.dirname(os.path.dirname(os.path.abspath(__file__)))


def main():
    rows = []
    for sid in sorted(os.listdir(os.path.join(VERIF, 'seeded'))):
        f = os.path.join(VERIF, 'seeded', sid, 'meta.json')
        if not os.path.exists(f):
            continue
        m = json.load(open(f))
        note = ''
        nf = os.path.join(VERIF, 'seeded', sid, 'note.txt')
        if os.path.exists(nf):
            note = ' '.join(open(nf).read().split())[:170]
        chk = m.get('check', {})
        rows.append((sid, 'yes' if m.get('demo_confirmed') else 'no', 'DETECTED' if m.get('detected') else 'missed',
                     chk.get('wall_s', ''), (chk.get('first') or [''])[0][:90].replace('|', '/'), note.replace('|', '/')))
    det = sum(1 for r in rows if r[2] == 'DETECTED')
    out = ['# Seeded changes: results of tools/seed_eval.py', '',
           f'{det} of {len(rows)} seeded changes are reported by the quick tier of the property\'s check '
           '(VERIF_REPO = a scratch worktree with the patch applied; exit 1 + VIOLATION).', '',
           '| seed | demo confirmed | quick check | wall s | first violating obligation | what the change is |',
           '|---|---|---|---|---|---|']
    for r in rows:
        out.append('| ' + ' | '.join(str(x) for x in r) + ' |')
    open(os.path.join(VERIF, 'seeded', 'RESULTS.md'), 'w').write('\n'.join(out) + '\n')
    print('\n'.join(out[:4]))


if __name__ == '__main__':
    main()
