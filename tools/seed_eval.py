#!/usr/bin/env python3
"""Evaluate seeded defects: for every /verif/seeded/<id>/ apply patch.diff to a
scratch worktree of /repo (never to /repo itself), confirm the demonstration
(PASS on the clean tree, FAIL with the patch), run the property's check with
VERIF_REPO pointing at the patched worktree and record whether it raised a
VIOLATION.  Results go to seeded/<id>/meta.json and seeded/RESULTS.md."""
import json
import os
import re
import subprocess
import sys
import time

VERIF = os.path.dirname(os.path.dirname(os.path.abspath(__file__)))
PY = '/venv/bin/python'


def sh(cmd, cwd=None, env=None, timeout=3600):
    p = subprocess.run(cmd, shell=True, cwd=cwd, env=env, stdout=subprocess.PIPE, stderr=subprocess.STDOUT,
                       text=True, timeout=timeout)
    return p.returncode, p.stdout


def main():
    only = sys.argv[1:] or None
    tier = os.environ.get('SEED_TIER', 'quick')
    head = sh('git -C /repo rev-parse HEAD')[1].strip()
    rows = []
    for sid in sorted(os.listdir(os.path.join(VERIF, 'seeded'))):
        d = os.path.join(VERIF, 'seeded', sid)
        if not os.path.isdir(d) or (only and sid not in only and sid.split('-')[0] not in only):
            continue
        prop = sid.split('-')[0]
        wt = f'/tmp/wt_{prop}'
        if not os.path.isdir(wt):
            sh(f'git -C /repo worktree add -q {wt} HEAD')
        sh('git checkout -q -- . && git checkout -q --detach ' + head, cwd=wt)
        meta = {'id': sid, 'property': prop, 'repo_head': head, 'tier': tier}
        note = open(os.path.join(d, 'note.txt')).read() if os.path.exists(os.path.join(d, 'note.txt')) else ''
        meta['what'] = note.strip()[:1500]
        env = dict(os.environ, C18_ROOT=wt, EDB_ROOT=wt, C04_ROOT=wt, PYTHONPATH='')
        # the demonstrations locate the checkout as the parent of their own directory
        os.makedirs(f'{wt}/_seeded', exist_ok=True)
        n = sid.split('-', 1)[1]
        demo = f'{wt}/_seeded/demo_{n}.py'
        import shutil
        shutil.copy(os.path.join(d, 'demo.py'), demo)
        for extra in os.listdir(d):          # helper modules a demonstration imports
            if extra.endswith('.py') and extra != 'demo.py':
                shutil.copy(os.path.join(d, extra), f'{wt}/_seeded/{extra}')
        rc0, out0 = sh(f'{PY} {demo} {wt}', cwd=wt, env=env, timeout=1200)
        rca, outa = sh(f'git apply {d}/patch.diff', cwd=wt)
        if rca != 0:
            meta['status'] = 'patch does not apply to current HEAD: ' + outa[-300:]
            rows.append(meta)
            json.dump(meta, open(os.path.join(d, 'meta.json'), 'w'), indent=1)
            continue
        rc1, out1 = sh(f'{PY} {demo} {wt}', cwd=wt, env=env, timeout=1200)
        meta['demo'] = {'clean_rc': rc0, 'patched_rc': rc1, 'patched_tail': out1[-400:]}
        meta['demo_confirmed'] = (rc0 == 0 and rc1 != 0)
        t0 = time.time()
        manifest = json.load(open(os.path.join(VERIF, 'MANIFEST.json')))
        claimed = {c['property_id'] for c in manifest['checks']}
        if prop in claimed:
            env2 = dict(os.environ, VERIF_REPO=wt, VERIF_EVIDENCE_DIR='/tmp/verif_seed_evidence')
            rc, out = sh(f'{PY} {VERIF}/check.py {prop} --tier {tier}', cwd=VERIF, env=env2, timeout=7200)
            viol = re.findall(r'^VIOLATION .*$', out, re.M)
            inconc = re.findall(r'^INCONCLUSIVE.*$', out, re.M)
            detail = []
            for m in re.finditer(r'^VIOLATION .*\n(  obligation .*)$', out, re.M):
                detail.append(m.group(1).strip()[:200])
            meta['check'] = {'cmd': f'VERIF_REPO={wt} {PY} /verif/check.py {prop} --tier {tier}', 'rc': rc,
                             'violations': len(viol), 'first': detail[:3], 'inconclusive': inconc[:2],
                             'wall_s': round(time.time() - t0)}
            meta['detected'] = (rc == 1 and bool(viol))
        else:
            meta['check'] = {'cmd': None, 'note': 'property not claimed (not_applicable in MANIFEST.json)'}
            meta['detected'] = False
        sh('git checkout -q -- .', cwd=wt)
        json.dump(meta, open(os.path.join(d, 'meta.json'), 'w'), indent=1)
        rows.append(meta)
        print(sid, 'demo_confirmed=%s' % meta.get('demo_confirmed'), 'detected=%s' % meta.get('detected'),
              meta.get('check', {}).get('first'), flush=True)
    # restore evidence of the unchanged tree is the caller's job (re-run the checks)
    return 0


if __name__ == '__main__':
    sys.exit(main())
