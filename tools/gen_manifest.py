#!/usr/bin/env python3
"""Regenerates /verif/MANIFEST.json from the table below (kept as a script so
that the manifest stays valid while checks are added)."""
import json
import os

HERE = os.path.dirname(os.path.dirname(os.path.abspath(__file__)))
PY = '/venv/bin/python'

NO_PARSER = ('needs the native EdgeQL parser (Rust/pyo3 + `parsing` tables) and the std schema; neither can be '
             'built or loaded in this sandbox (no pyo3/bigdecimal/snafu crates offline, no `parsing` package), so '
             'no text can be parsed, no schema with std types built and nothing compiled: the property has no '
             'executable subject here for any technique')

NOT_APPLICABLE = {
    'C01': 'print/re-parse round trip: ' + NO_PARSER + '; the token-level half (literals, identifiers, parameters) is decided under C18',
    'C02': 'computed migrations: ' + NO_PARSER,
    'C03': 'DESCRIBE output rebuilds the schema: ' + NO_PARSER,
    'C05': 'backend tables track the schema: edb/pgsql/delta.py adapts deltas of std-based object types; ' + NO_PARSER,
    'C07': 'access policies on every read path: needs EdgeQL->IR->SQL compilation; ' + NO_PARSER,
    'C10': 'step-by-step vs direct migration: ' + NO_PARSER,
    'C11': 'SDL order independence: sdl_to_ddl needs parsed SDL and std name resolution (' + NO_PARSER + '); its ordering kernel is decided under C20',
    'C12': 'inferred types vs evaluated values: needs compilation and the toy evaluator, both need the parser; ' + NO_PARSER,
    'C13': 'generated SQL scoping/determinism: needs compiled queries; ' + NO_PARSER,
}

# property -> (category, technique, text, level_note, design_ref)
CHECKS = {}


def check(pid, category, technique, text, note, ref, engine='E1 CrossHair'):
    CHECKS[pid] = dict(category=category, technique=technique, text=text, note=note, ref=ref, engine=engine)


check('C06', 'other',
      'bounded symbolic execution of the real cardinality-algebra functions (CrossHair + z3), set sizes as unbounded symbolic integers',
      'Solver-decided, per path, over all tuples of <=3 argument cardinalities and ALL integer set sizes: the cartesian/union/'
      'coalesce/bounds functions of inference/cardinality.py never report a cardinality that an actual set size contradicts. '
      'Only the bounds algebra is covered (the inference rules over IR need the parser, which is absent).',
      'Trusted: the 20-line concretisation gamma(), CrossHair\'s int/enum models, z3. Outside: every __infer_* rule, multiplicity.',
      'DESIGN.md section 4, C06')

UNDER_CONSTRUCTION = {}


def main():
    props = [json.loads(l)['id'] for l in open(os.path.join(HERE, 'properties.jsonl'))]
    checks = []
    na = []
    for pid in props:
        if pid in CHECKS:
            c = CHECKS[pid]
            checks.append({
                'property_id': pid,
                'quick_cmd': f'{PY} /verif/check.py {pid} --tier quick',
                'thorough_cmd': f'{PY} /verif/check.py {pid} --tier thorough',
                'evidence_file': f'/verif/evidence/{pid}.json',
                'replay_cmd_template': f'{PY} /verif/check.py {pid} --replay {{path}}',
                'engine': c['engine'],
                'level_claimed': {'category': c['category'], 'text': c['text'], 'design_ref': c['ref']},
                'level_note': c['note'],
                'technique': c['technique'],
            })
        elif pid in NOT_APPLICABLE:
            na.append({'property_id': pid, 'reason': NOT_APPLICABLE[pid]})
        else:
            na.append({'property_id': pid, 'reason': UNDER_CONSTRUCTION.get(
                pid, 'check under construction (see DESIGN.md section 4); not claimed until its harness is committed')})
    manifest = {
        'version': 1,
        'setup_cmd': f'{PY} -m vlib.bootstrap',
        'hooks': {
            'guard': 'EDGEDB_VERIF',
            'enable': 'no source hooks: every stub is a namespace patch applied inside the check process; checks export EDGEDB_VERIF=1 for uniformity',
            'baseline_off_cmd': 'cd /repo && /venv/bin/python -m pytest -ra -q -p no:cacheprovider --timeout=900 --continue-on-collection-errors',
            'source_commits': [],
            'add_only': True,
        },
        'engines': [
            {'name': 'E1 CrossHair', 'path': '/verif/vlib/xhair.py', 'serves_properties': sorted(CHECKS),
             'kind_free_text': 'symbolic execution of the real Python functions with z3, one process per obligation, native replay of every counterexample'},
        ],
        'checks': checks,
        'not_applicable': na,
        'notes': 'Solver-based checking of the real code; see DESIGN.md. Exit 2 = inconclusive (machinery problem), never used for solver timeouts.',
    }
    with open(os.path.join(HERE, 'MANIFEST.json'), 'w') as f:
        json.dump(manifest, f, indent=1)
    print('checks:', [c['property_id'] for c in checks])
    print('not_applicable:', [c['property_id'] for c in na])


if __name__ == '__main__':
    main()
