#!/usr/bin/env python3
"""Regenerates /verif/MANIFEST.json from the table below (kept as a script so
that the manifest stays valid while checks are added)."""
import json
import os

HERE = os.path.dirname(os.path.dirname(os.path.abspath(__file__)))
PY = '/venv/bin/python'

NO_PARSER = ('needs the native EdgeQL parser (Rust/pyo3 + `parsing` tables) and the std schema; neither can be '
             'built or loaded in this sandbox (no pyo3/bigdecimal/snafu crates offline, no `parsing` package), so '
             'no text can be parsed, no schema with std types built and nothing compiled: the property has no '
             'executable subject here for any technique')

NOT_APPLICABLE = {
    'C01': 'print/re-parse round trip: ' + NO_PARSER + '; the token-level half (literals, identifiers, parameters) is decided under C18',
    #'C02-old': 'computed migrations: ' + NO_PARSER,
    #'C10-old': 'step-by-step vs direct migration: ' + NO_PARSER,
    #'C11-old': 'SDL order independence: sdl_to_ddl needs parsed SDL and std name resolution (' + NO_PARSER + '); its ordering kernel is decided under C20',
}

# property -> (category, technique, text, level_note, design_ref)
CHECKS = {}


def check(pid, category, technique, text, note, ref, engine='E1 CrossHair'):
    CHECKS[pid] = dict(category=category, technique=technique, text=text, note=note, ref=ref, engine=engine)


check('C06', 'other',
      'bounded symbolic execution of the real cardinality-algebra functions (CrossHair + z3), set sizes as unbounded symbolic integers',
      'Solver-decided, per path, over all tuples of <=3 argument cardinalities and ALL integer set sizes: the cartesian/union/'
      'coalesce/bounds functions of inference/cardinality.py never report a cardinality that an actual set size contradicts. '
      'In addition every accepted query of a compositional family of hand-built queries is compiled by the real EdgeQL compiler and '
      'evaluated by a reference evaluator on a family of explicit database instances: result sizes lie in the inferred cardinality and '
      'UNIQUE multiplicity means no duplicates.',
      'Trusted: the 20-line concretisation gamma(), the 150-line reference evaluator and its database family, CrossHair, z3. Outside: '
      'queries beyond the family, exclusive constraints, path factoring.',
      'DESIGN.md section 4, C06')

check('C08', 'other',
      'bounded symbolic execution of the real statement dispatch / unit / group capability bookkeeping (CrossHair + z3), sub-compiler outcomes symbolic',
      'Solver-decided over every top-level statement kind (hand-built AST nodes) x every outcome of the schema-dependent sub-compilers '
      '(has_dml, migration transaction action, configuration scope): the capability set of the statement, of its QueryUnit and of '
      'the QueryUnitGroup contains the capability the statement needs; a group carries exactly the union of its units. In addition, '
      'hand-built queries with DML in 14 nesting contexts (plain and under ANALYZE) go through the REAL query compilation path: '
      'MODIFICATIONS / has_dml is reported exactly when the statement contains a data-modifying sub-statement.',
      'Trusted: expected() table in the harness; for the dispatch part the sub-compilers are stand-ins with symbolic outcomes; the real-path '
      'part uses a transcribed fragment of the standard library.',
      'DESIGN.md section 4, C08')

check('C09', 'model_checking',
      'bounded model checking of the real transaction-state and compile-layer code by symbolic execution (CrossHair + z3) against a PostgreSQL transaction model',
      'Every history inside the bound - operation kinds, savepoint names (with repeats), backend-failure placements as symbolic choices - '
      'is executed on the real dbstate.Transaction / CompilerConnectionState and, for statements, through the real '
      '_compile_dispatch_ql/_make_query_unit; after every step the abstraction of the real state equals a PostgreSQL-style model and '
      'every statement is compiled against the state the model exposes. Bounded (<= 3-4 operations / recipe prefix + <= 2-3 statements).',
      'Trusted: the 60-line transaction model; the transcription of the Cython server bookkeeping (dbview/execute/binary.pyx); DDL and '
      'CONFIGURE are represented by the state-mutating call their compilation ends in. Known finding F11 listed in known_findings.json.',
      'DESIGN.md section 4, C09')

check('C14', 'other',
      'bounded symbolic execution of the real descriptor-id key builders (CrossHair + z3 string theory), uuid5 replaced by the identity',
      'Solver-decided injectivity of the strings hashed into descriptor ids over symbolic element names (|s| <= 2-3, all of Unicode), '
      'sub-type ids, cardinalities and flags: equal ids imply equal descriptions, within and across the id functions. In addition every '
      'accepted query of a compositional family goes through the real server query path; its output / input descriptors, parsed back under '
      'protocol 1.0 / 2.0 / 3.0, state exactly the names, order, cardinalities, element types and tuple structure of the compiled result '
      'shape and parameters, and equal ids come with identical bytes.',
      'Trusted: SHA-1/uuid5 collision freedom (stubbed by identity in part 1). Known findings F5 (":" in names) and F20 (tuple names leak '
      'derived view names). Arrays, ranges, enums are not in the query family.',
      'DESIGN.md section 4, C14')

check('C17', 'model_checking',
      'bounded model checking of the real compiler-pool / worker state synchronisation by symbolic execution (CrossHair + z3) with injected transfer faults',
      'Every history inside the bound - which worker, which database, which of the five state parts changed and how (new, new empty map, '
      'back to the previous object), which fault (compiler error, failed unpickling of a chosen part, lost request/response) - runs '
      'through the real AbstractPool.compile/_compute_compile_preargs/BaseWorker.call and two private copies of the real worker module; '
      'a request that reaches the compiler was compiled against exactly the supplied values and the server never believes a worker holds '
      'state it does not hold.',
      'Trusted: recorder COMPILER, consistency predicate; worker processes are in-process module copies; real pickle for transfers.',
      'DESIGN.md section 4, C17')

check('C18', 'other',
      'bounded symbolic execution of the real quoting functions (CrossHair + z3 string theory) read back by a reference lexer validated against the real Rust lexer compiled from /repo',
      'For every string / bytes value inside the bound (all of Unicode up to |s| 1-3 per form, ASCII |s| = 2, an adversarial alphabet up to '
      '|s| 3-4, bytes |b| <= 1-2) the text produced by each real quoting function lexes as exactly one token of the expected kind with the '
      'original value - decided by the solver per path, not sampled. Counterexamples are replayed on CPython and on the real lexer.',
      'Trusted: PostgreSQL lexical model (PostgreSQL is not in the sandbox); CrossHair string/regex/Unicode models for coverage. The EdgeQL '
      'reference lexer is NOT trusted: validated every run against the lexer compiled from tokenizer.rs/validation.rs/helpers.',
      'DESIGN.md section 4, C18', engine='E1 CrossHair + real EdgeQL lexer (rustc)')

check('C19', 'other',
      'bounded symbolic execution of the real configuration operation layer (CrossHair + z3), values symbolic, json codec replaced by the identity',
      'Solver-decided for every pre-state (setting present/absent per scope), every SET/RESET/ADD/REM with symbolic well- and ill-typed '
      'values: lookup returns the most specific scope\'s value else the default, a rejected operation changes nothing, JSON round trip '
      'preserves name/value/source/scope. Duration/ConfigMemory text codecs and DESCRIBE-as-CONFIGURE round trips are not decided.',
      'Trusted: the scope-precedence model in the harness; hand-built FlatSpec stands for the generated spec.',
      'DESIGN.md section 4, C19')

check('C15', 'model_checking',
      'bounded model checking of the real asyncio connection pool by symbolic execution of schedules (CrossHair + z3) on a deterministic event loop',
      'From pre-states built through the public API every schedule of 3 (quick) / 4 (thorough) symbolic actions - acquire on any of '
      '<= 3 databases, release, release-as-broken, completion or failure of a connect / disconnect, timer firing, clock increment from '
      'a finite set - is executed on the real Pool coroutines; after every action: open + opening <= max, a lent connection is open, '
      'for the right database and lent once, reported usage = open + opening + closing, no unexpected exception in a pool task.',
      'Trusted: ghost connection bookkeeping in the harness; the 40-line deterministic loop stands for asyncio (real Future/Task); '
      'monitors at quiescence.', 'DESIGN.md section 4, C15/C16')

check('C16', 'model_checking',
      'bounded deadlock-freedom of the real connection pool: symbolic schedules (CrossHair + z3) followed by a fixed fair continuation',
      'Same exploration as C15; after the symbolic schedule a fair continuation (complete everything in flight, release everything held, '
      'fire every timer, let time pass, until 8 rounds bring no progress) must leave no acquire() pending; with connects failing until '
      'retries are exhausted (or 3D000) every waiting request must get the error. Liveness is claimed only in this bounded '
      'no-reachable-stuck-state form. Known finding F8 (requests that depend on a release() which never comes) is listed.',
      'Trusted: as C15; the fair continuation is one particular fair schedule (a state stuck under every continuation is stuck under it).',
      'DESIGN.md section 4, C15/C16')

check('C20', 'other',
      'merged predicated QF_BV encoding of the current source of topological.sort_ex (vlib.pysym: AST -> one formula, z3 + cvc5), plus '
      'per-path symbolic execution (CrossHair + z3) at N <= 3',
      'E2: the AST of sort_ex is evaluated symbolically once; one Boolean per (edge kind, ordered pair) makes ALL graphs of a size one '
      'formula and each property one solver query: N = 3 with deps / weak_deps / merge / loop_control and a missing key (2^48 graphs), '
      'N = 4 with deps + weak_deps (2^32; thorough: + loop_control or merge, 2^48). Properties: one outcome; permutation; hard edges '
      'respected; hard cycle => CycleError; CycleError => real cycle; soft edges honoured when everything is acyclic; removing soft '
      'edges never changes the outcome; missing item raises iff not allowed. Unwinding assertion, vacuity witnesses, per-run '
      'translator validation against CPython, native replay of every model, cvc5 as second solver. E1 repeats the check per path at '
      'N = 2..3 and adds determinism, sort() and normalize().',
      'Trusted: reachability formulas; vlib.pysym is validated against CPython on every run and fails closed on unsupported syntax. '
      'Iteration order of keys: ascending only. N >= 5 outside.', 'DESIGN.md section 4, C20', engine='E2 PySym merged encoding + E1 CrossHair')

check('C03', 'model_checking',
      'bounded model checking of schema description: symbolically chosen schemas (CrossHair + z3), the statements behind '
      'ddl_text_from_schema / sdl_text_from_schema replayed on an empty database under several session module settings',
      'Statement level only: for every schema inside the bound (6 recipes + <= 2 DDL commands) the statement nodes that DESCRIBE '
      'renders as DDL and as SDL are accepted by an std-only database and rebuild a structurally equal, referentially intact schema, '
      'whatever the session default module / extra aliases. That the rendered text parses back to these nodes (C01) cannot be '
      'decided here - no parser.',
      'Trusted: structural-equality oracle; std stand-in. Excluded: aliases that shadow a module name used in the text; object classes '
      'that need expressions.', 'DESIGN.md section 4, C03')

check('C13', 'other',
      'bounded symbolic execution over a compositional family of hand-built queries (CrossHair + z3 choose the composition), each compiled '
      'by the real EdgeQL->IR->SQL compilers; the SQL tree is resolved under PostgreSQL scoping rules',
      'For every accepted query of the family (atoms x wrappers x binary / DML / nesting forms over a Person/Admin/Post schema; ~30 000 '
      'queries in the quick tier): all column references resolve (LATERAL / CTE / sub-query visibility, output columns of sub-selects), '
      'parameters are consistent with the argument map, and recompilation - also under a different hash seed - gives byte-identical SQL, '
      'argument map and descriptors. Queries are qlast trees, not text (no parser); the standard library is a transcribed fragment.',
      'Trusted: the name-resolution model in vlib/sqlscope.py. One defect repaired (hash-order dependent join conditions), known '
      'finding F19 (descriptor of `DML ?? DML`).', 'DESIGN.md section 4, C13')

check('C07', 'other',
      'bounded symbolic execution over read-only queries x policy placements x policy kinds (CrossHair + z3 choose), real compilers, '
      'guard-flow analysis of the emitted SQL tree',
      'For every accepted read-only query of the family and every placement (type, descendant, link target, two types) and kind (allow '
      'select / allow all / allow + deny / select + update read) of access policies created through the real DDL path: no emitted SQL reads '
      'the table of a protected type or of its descendants except below a SELECT that filters on that policy\'s condition (recognised by a '
      'unique marker constant), following CTE references. Backlinks, aliases, computeds and globals are not in the family.',
      'Trusted: the guard-flow analysis; markers identify conditions, their logical combination is not checked. Queries are qlast trees; '
      'std is a transcribed fragment.', 'DESIGN.md section 4, C07')

check('C12', 'other',
      'bounded symbolic execution over a compositional family of hand-built queries (CrossHair + z3 choose), real EdgeQL compiler, reference '
      'evaluator on explicit database instances',
      'For every accepted query of the family the values a reference evaluator computes on each of 10 explicit database instances x 3 parameter '
      'sets belong to the result type the real compiler inferred (scalar kind through views, tuple structure, object type up to sub-typing '
      'over a 3-level hierarchy).',
      'Trusted: the reference evaluator. Only str / int64 / bool scalars exist in the stand-in: mixed numeric types, arrays and implicit casts '
      'are outside.', 'DESIGN.md section 4, C12')

check('C05', 'model_checking',
      'bounded model checking of DDL histories through the real backend delta (pgsql.delta adapt / apply / generate): commands are '
      'symbolic choices (CrossHair + z3), the dbops stream is interpreted on a ghost catalog',
      'Every history inside the bound - 2 (quick) / 3 (thorough, one recipe) commands chosen from a menu of ~100 DDL commands over 3 '
      'object types on top of 8 pre-built schemas - runs through ddl.delta_from_ddl, pgsql.delta.CommandMeta.adapt, apply and generate '
      'as the server does; after every accepted command no emitted table operation is one PostgreSQL would refuse and the resulting '
      'tables and columns are exactly what types.has_table / get_pointer_storage_info / get_backend_name tell the query compiler to '
      'address: nothing missing, nothing orphaned, column types equal.',
      'Trusted: the 150-line ghost-catalog interpreter of dbops. std stand-in instead of the standard library (no id / __type__ columns); '
      'NOT NULL, defaults, constraints, triggers, views and data-migration statements are generated but not interpreted; expressions '
      '(computed <-> stored) are outside.', 'DESIGN.md section 4, C05')

check('C04', 'model_checking',
      'bounded model checking of DDL histories on the real schema delta machinery: commands are symbolic choices (CrossHair + z3), executed natively once chosen',
      'Every history inside the bound - 2 (quick) / 3 (thorough) commands chosen from a menu of ~70 DDL commands over 3 object types '
      '(create / drop / rename / re-base / abstract, properties, links, annotations) on top of 4 pre-built schemas - runs through the '
      'real delta/ddl/inheriting/referencing/schema code as hand-built DDL nodes; after every command, accepted or rejected: all '
      'references resolve, name / id / referrer look-ups agree with the objects, dropped objects are unreachable, and every earlier '
      'schema value still observes as before.',
      'Trusted: integrity oracle in vlib/schema_kit.py; a minimal stand-in for std (the real std library needs the parser). Commands '
      'are DDL AST nodes, not text. Finite-domain: the solver prunes, CrossHair enumerates the feasible choice sequences.',
      'DESIGN.md section 4, C04')

check('C02', 'model_checking',
      'bounded model checking of ddl.delta_schemas on schema pairs chosen symbolically (CrossHair + z3), migrations applied directly and replayed as DDL statements',
      'For every pair of schemas inside the bound (4 (quick) / 7 (thorough) recipes x at most 1 extra DDL command per side out of 81, links and '
      're-ordered bases included) the migration computed by the '
      'real diff engine, when accepted, yields a schema structurally equal to the target with no residual delta - both applied '
      'directly and rendered as DDL statements and replayed. Refused migrations are outside the statement (their share is reported).',
      'Trusted: structural-equality oracle; std stand-in; DDL replay starts from statement nodes (no text parser). Known finding F17; two '
      'defects repaired (base removal while iterating, re-positioning of bases).',
      'DESIGN.md section 4, C02/C10')

check('C10', 'model_checking',
      'bounded model checking of migration chains (empty -> S1 -> S2 vs empty -> S2, then -> empty) with symbolically chosen schemas (CrossHair + z3)',
      'For every chain inside the bound the step-by-step result equals the direct one and the target, and the final migration to the '
      'empty schema removes everything, whenever every step is accepted.',
      'Trusted: as C02.', 'DESIGN.md section 4, C02/C10')

check('C11', 'model_checking',
      'bounded model checking of ddl.apply_sdl over symbolically chosen SDL documents and declaration orders (CrossHair + z3), hand-built SDL nodes',
      'For every 3-type SDL document inside the bound (extending / link / annotation structure chosen symbolically, cyclic cases '
      'included) and every order of its declarations (all permutations of top-level declarations, body member order, module-block '
      'split) the real apply_sdl gives the same outcome as for the reference order: equal, referentially intact schemas, or rejection '
      'in both; a cycle rejection only for really cyclic extending relations. A second family gives all types one shared multi link '
      '(overloaded where an ancestor declares it). Known finding F18.',
      'Trusted: structural-equality oracle; std stand-in; SDL given as qlast.Schema nodes (no text parser). Declarations with '
      'expressions are outside.', 'DESIGN.md section 4, C11')

UNDER_CONSTRUCTION = {}


def main():
    props = [json.loads(l)['id'] for l in open(os.path.join(HERE, 'properties.jsonl'))]
    checks = []
    na = []
    for pid in props:
        if pid in CHECKS:
            c = CHECKS[pid]
            checks.append({
                'property_id': pid,
                'quick_cmd': f'{PY} /verif/check.py {pid} --tier quick',
                'thorough_cmd': f'{PY} /verif/check.py {pid} --tier thorough',
                'evidence_file': f'/verif/evidence/{pid}.json',
                'replay_cmd_template': f'{PY} /verif/check.py {pid} --replay {{path}}',
                'engine': c['engine'],
                'level_claimed': {'category': c['category'], 'text': c['text'], 'design_ref': c['ref']},
                'level_note': c['note'],
                'technique': c['technique'],
            })
        elif pid in NOT_APPLICABLE:
            na.append({'property_id': pid, 'reason': NOT_APPLICABLE[pid]})
        else:
            na.append({'property_id': pid, 'reason': UNDER_CONSTRUCTION.get(
                pid, 'check under construction (see DESIGN.md section 4); not claimed until its harness is committed')})
    manifest = {
        'version': 1,
        'setup_cmd': f'{PY} -m vlib.bootstrap',
        'hooks': {
            'guard': 'EDGEDB_VERIF',
            'enable': 'no source hooks: every stub is a namespace patch applied inside the check process; checks export EDGEDB_VERIF=1 for uniformity',
            'baseline_off_cmd': 'cd /repo && /venv/bin/python -m pytest -ra -q -p no:cacheprovider --timeout=900 --continue-on-collection-errors',
            'source_commits': [],
            'add_only': True,
        },
        'engines': [
            {'name': 'E1 CrossHair', 'path': '/verif/vlib/xhair.py', 'serves_properties': sorted(CHECKS),
             'kind_free_text': 'symbolic execution of the real Python functions with z3, one process per obligation, native replay of every counterexample'},
            {'name': 'E2 PySym', 'path': '/verif/vlib/pysym.py', 'serves_properties': ['C20'],
             'kind_free_text': 'merged predicated symbolic evaluation of a function AST (read from the tree under test) into QF_BV; z3 tactic pipeline, cvc5 binary as second solver; validated against CPython per run'},
        ],
        'checks': checks,
        'not_applicable': na,
        'notes': 'Solver-based checking of the real code; see DESIGN.md. Exit 2 = inconclusive (machinery problem), never used for solver timeouts.',
    }
    with open(os.path.join(HERE, 'MANIFEST.json'), 'w') as f:
        json.dump(manifest, f, indent=1)
    print('checks:', [c['property_id'] for c in checks])
    print('not_applicable:', [c['property_id'] for c in na])


if __name__ == '__main__':
    main()
