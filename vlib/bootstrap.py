"""Overlay virtualenv: /venv's interpreter and packages + crosshair-tool and
z3 from the offline wheelhouse.  Idempotent and file-locked, so that every
check can call it (checks may be started from a tree that only contains the
committed files)."""
import fcntl
import os
import subprocess
import sys

from . import VERIF, VENV, VENV_PY, BASE_PY, WHEELS

_MARK = os.path.join(VENV, '.ok')


def ensure_venv(verbose: bool = False) -> str:
    if os.path.exists(_MARK):
        return VENV_PY
    lock = open(os.path.join(VERIF, '.venv.lock'), 'w')
    fcntl.flock(lock, fcntl.LOCK_EX)
    try:
        if os.path.exists(_MARK):
            return VENV_PY
        env = dict(os.environ, PIP_NO_INDEX='1', PIP_DISABLE_PIP_VERSION_CHECK='1')
        subprocess.run([BASE_PY, '-m', 'venv', '--clear', VENV], check=True, env=env)
        sp = os.path.join(VENV, 'lib', 'python3.12', 'site-packages')
        with open(os.path.join(sp, 'base.pth'), 'w') as f:
            f.write('/venv/lib/python3.12/site-packages\n')
        r = subprocess.run(
            [VENV_PY, '-m', 'pip', 'install', '-q', '--no-index',
             '--find-links', WHEELS, 'crosshair-tool', 'z3-solver'],
            env=env, stdout=subprocess.PIPE, stderr=subprocess.STDOUT, text=True)
        if r.returncode != 0:
            sys.stderr.write(r.stdout)
            raise SystemExit(3)
        subprocess.run([VENV_PY, '-c', 'import crosshair, z3'], check=True)
        open(_MARK, 'w').write('ok\n')
        if verbose:
            print('overlay venv created at', VENV)
    finally:
        fcntl.flock(lock, fcntl.LOCK_UN)
        lock.close()
    return VENV_PY


def add_overlay_to_path() -> None:
    """Make the overlay's packages (z3) importable in the current process."""
    import site
    sp = os.path.join(VENV, 'lib', 'python3.12', 'site-packages')
    if sp not in sys.path:
        site.addsitedir(sp)


if __name__ == '__main__':
    ensure_venv(verbose=True)
