"""One CrossHair obligation per OS process.

usage: python -m vlib.xh_worker <spec.json>            analyse
       python -m vlib.xh_worker --replay <spec.json>   native re-execution

The spec is an `Ob` (see xhair.py) as JSON plus 'scratch' (directory for the
generated contract wrapper) and, for replay, 'call' (the argument text of the
counterexample).  The last line of stdout is a JSON result.
"""
import collections
import importlib
import json
import os
import re
import sys
import time
import traceback

HERE = os.path.dirname(os.path.dirname(os.path.abspath(__file__)))
if HERE not in sys.path:
    sys.path.insert(0, HERE)


def _wrapper_source(spec) -> str:
    names = [p.split(':')[0].strip() for p in _split_params(spec['params'])]
    lines = [
        'import sys',
        f'sys.path.insert(0, {HERE!r})',
        'import vlib.shims',
        f'import {spec["module"]} as H',
        f'from {spec["module"]} import *',
        'from typing import *',
        '',
        f'def ob({spec["params"]}) -> bool:',
        '    r"""',
    ]
    for p in spec['pre']:
        lines.append(f'    pre: {p}')
    lines.append(f'    post: {spec.get("post", "_")}')
    for r in spec.get('raises', []):
        lines.append(f'    raises: {r}')
    lines.append('    """')
    lines.append(f'    return H.{spec["func"]}({spec.get("args") or ", ".join(names)})')
    lines.append('')
    return '\n'.join(lines)


def _split_params(s: str):
    out, depth, cur = [], 0, ''
    for ch in s:
        if ch in '[(':
            depth += 1
        elif ch in '])':
            depth -= 1
        if ch == ',' and depth == 0:
            out.append(cur)
            cur = ''
        else:
            cur += ch
    if cur.strip():
        out.append(cur)
    return out


def _load_wrapper(spec):
    scratch = spec['scratch']
    os.makedirs(scratch, exist_ok=True)
    modname = 'ob_' + re.sub(r'\W', '_', spec['id'])
    path = os.path.join(scratch, modname + '.py')
    with open(path, 'w') as f:
        f.write(_wrapper_source(spec))
    sys.path.insert(0, scratch)
    mod = importlib.import_module(modname)
    return mod, path


def _extend_crosshair():
    """Engine extension: CrossHair rewrites `x in <set|dict>` with a symbolic x
    into a linear scan of equality tests, but not for `frozenset` (which is what
    a set display of constants, e.g. `s in {'__type__', '__std__'}`, compiles to):
    there it hashes x, i.e. realises it.  Give frozenset the same treatment."""
    from crosshair import opcode_intercept as oi
    orig = oi.ContainmentInterceptor.trace_op

    def trace_op(self, frame, codeobj, codenum):
        item = oi.frame_stack_read(frame, -2)
        if isinstance(item, oi.CrossHairValue):
            container = oi.frame_stack_read(frame, -1)
            if type(container) is frozenset:
                oi.frame_stack_write(frame, -1, oi.ShellMutableSet(oi.LinearSet(container)))
                return
        return orig(self, frame, codeobj, codenum)

    oi.ContainmentInterceptor.trace_op = trace_op

    # Second engine setting: no short-circuiting.  CrossHair may replace a call
    # to a function that carries a contract by a fresh symbolic return value
    # (reconciled at the end of the path) and forks on whether to do so; in
    # these harnesses that only multiplies paths (e.g. hash() inside
    # uuid.UUID.__hash__ during schema look-ups).  Callees are always executed.
    from crosshair import core as chcore
    chcore.ShortCircuitingContext.__enter__ = lambda self: None
    chcore.ShortCircuitingContext.__exit__ = lambda self, *a: False


def analyse(spec):
    t0 = time.time()
    _extend_crosshair()
    mod, path = _load_wrapper(spec)
    H = mod.H
    from crosshair.core_and_libs import analyze_function, run_checkables
    from crosshair.options import AnalysisOptionSet
    stats = collections.Counter()
    kw = dict(per_condition_timeout=float(spec['timeout']), report_all=True,
              stats=stats)
    if spec.get('path_timeout'):
        kw['per_path_timeout'] = float(spec['path_timeout'])
    opts = AnalysisOptionSet(**kw)
    from vlib import cov
    cov.reset()
    c0 = time.process_time()
    msgs = run_checkables(analyze_function(mod.ob, opts))
    cpu = time.process_time() - c0
    out = {
        'id': spec['id'],
        'messages': [{'state': m.state.name, 'message': m.message,
                      'line': m.line} for m in msgs],
        'paths': int(stats.get('num_paths', 0)),
        'completed_paths': cov.count(),
        'tags': cov.tags(),
        'cpu_s': round(cpu, 3),
        'wall_s': round(time.time() - t0, 3),
        'subjects': getattr(H, 'SUBJECTS', []),
    }
    return out


def replay(spec):
    """Re-run the harness body natively (no CrossHair) on the arguments of a
    reported counterexample."""
    import vlib.shims  # noqa
    H = importlib.import_module(spec['module'])
    fn = getattr(H, spec['func'])
    ns = {'__builtins__': __builtins__, 'float': float}
    res = {'id': spec['id'], 'call': spec['call']}
    try:
        args, kwargs = eval('(lambda *a, **k: (a, k))(' + spec['call'] + ')', ns)
    except BaseException as e:  # unparsable counterexample
        res.update(outcome='unparsable', detail=repr(e))
        return res
    # preconditions are re-evaluated natively too
    names = [p.split(':')[0].strip() for p in _split_params(spec['params'])]
    bound = dict(zip(names, args))
    bound.update(kwargs)
    try:
        for p in spec['pre']:
            env = dict(vars(H))
            env.update(bound)
            if not eval(p, env):
                res.update(outcome='pre_false', detail=p)
                return res
    except Exception as e:
        res.update(outcome='pre_error', detail=repr(e))
        return res
    try:
        if spec.get('args'):
            env = dict(vars(H))
            env.update(bound)
            full = eval('(' + spec['args'] + ',)', env)
            res['full_args'] = repr(full)
            r = fn(*full)
        else:
            r = fn(*args, **kwargs)
    except Exception as e:
        allowed = spec.get('raises', [])
        res.update(outcome='exception', exc=type(e).__name__, detail=str(e)[:500],
                   tb=traceback.format_exc()[-1500:],
                   allowed=type(e).__name__ in allowed)
        return res
    res.update(outcome='returned', value=bool(r), detail=repr(r)[:300])
    info = getattr(H, 'LAST_INFO', None)
    if info:
        res['info'] = info
    return res


def main():
    args = sys.argv[1:]
    mode = 'analyse'
    if args[0] == '--replay':
        mode = 'replay'
        args = args[1:]
    spec = json.load(open(args[0]))
    try:
        out = analyse(spec) if mode == 'analyse' else replay(spec)
    except Exception as e:
        out = {'id': spec.get('id'), 'error': repr(e),
               'tb': traceback.format_exc()[-3000:]}
    sys.stdout.flush()
    print('\n@@RESULT@@' + json.dumps(out, default=repr))


if __name__ == '__main__':
    main()
