"""Queries without a parser: a richer stand-in for the std module (operators and
functions declared through the real DDL path from hand-built qlast nodes that
transcribe edb/lib/std/*.edgeql), a small user schema, a compositional family of
hand-built qlast queries, helpers that run the REAL EdgeQL->IR and IR->SQL
compilers on them, and a tiny reference evaluator for that query family."""
from __future__ import annotations

import itertools
from typing import Any, Dict, List, Optional, Tuple

import sys
import types as _pytypes

import vlib.shims  # noqa: F401
from vlib import schema_kit as K

# edb.buildmeta wants the distribution's version (versioned backend schema names in the SQL compiler)
if 'edb._buildmeta' not in sys.modules:
    _bm = _pytypes.ModuleType('edb._buildmeta')
    _bm.VERSION = (7, 0, 0, 1, ())
    sys.modules['edb._buildmeta'] = _bm
    import edb as _edb
    _edb._buildmeta = _bm

from edb.schema import ddl as s_ddl
from edb.edgeql import ast as qlast
from edb.edgeql import qltypes
from edb.edgeql import compiler as qlcompiler
from edb.edgeql.compiler import options as coptions

TM = qltypes.TypeModifier
PK = qltypes.ParameterKind
OPK = qltypes.OperatorKind
SINGLE, OPT, SETOF = TM.SingletonType, TM.OptionalType, TM.SetOfType


def _tn(name):
    if '::' in name:
        return K._tn(name)
    return qlast.TypeName(maintype=qlast.PseudoObjectRef(name=name))


def _std(schema, node):
    s2, _ = s_ddl.delta_and_schema_from_ddl(node, schema=schema, modaliases={None: 'std'}, stdmode=True)
    return s2


def _operator(schema, name, kind, params, ret, retmod=SINGLE, sqlop=None, fields=()):
    cmds = [qlast.SetField(name='volatility', value=qlast.Constant.string('Immutable'))]
    for f, v in fields:
        val = qlast.Constant.boolean(v) if isinstance(v, bool) else qlast.Constant.string(v)
        cmds.append(qlast.SetField(name=f, value=val))
    node = qlast.CreateOperator(
        kind=kind, name=qlast.ObjectRef(module='std', name=name),
        params=[qlast.FuncParam(name=n, type=_tn(t), typemod=m, kind=PK.PositionalParam) for n, t, m in params],
        returning=_tn(ret), returning_typemod=retmod,
        code=qlast.OperatorCode(language=qlast.Language.SQL, from_operator=(sqlop,) if sqlop else None,
                                from_function=None, from_expr=sqlop is None, code=None),
        commands=cmds)
    return _std(schema, node)


def _function(schema, name, params, ret, retmod=SINGLE, sqlfunc=None, fields=(), named=()):
    cmds = []
    if not any(f == 'volatility' for f, _v in fields):
        cmds.append(qlast.SetField(name='volatility', value=qlast.Constant.string('Immutable')))
    for f, v in fields:
        if isinstance(v, bool):
            val = qlast.Constant.boolean(v)
        elif isinstance(v, int):
            val = qlast.Constant.integer(v)
        else:
            val = qlast.Constant.string(v)
        cmds.append(qlast.SetField(name=f, value=val))
    node = qlast.CreateFunction(
        name=qlast.ObjectRef(module='std', name=name),
        params=[qlast.FuncParam(name=n, type=_tn(t), typemod=m, kind=PK.PositionalParam) for n, t, m in params]
        + [qlast.FuncParam(name=n, type=_tn(t), typemod=m, kind=PK.NamedOnlyParam, default=d) for n, t, m, d in named],
        returning=_tn(ret), returning_typemod=retmod,
        code=qlast.FunctionCode(language=qlast.Language.SQL, from_function=sqlfunc, from_expr=sqlfunc is None, code=None),
        commands=cmds)
    return _std(schema, node)


_STD_PLUS = None


def std_plus():
    """std stand-in + the operators / functions the query family uses
    (declarations transcribed from edb/lib/std/12-abstractops, 25-setoperators,
    25-booloperators, 25-numoperators, 30-strfuncs, 20-genericfuncs, 60-baseobject)."""
    global _STD_PLUS
    if _STD_PLUS is None:
        _st = K.id_state()
        s = K.std_schema()
        K.reset_ids(0, start=6 * 10 ** 8)
        s = K._create_type_cmd(s, 'std::FreeObject', bases=(), stdmode=True)
        s = K._create_scalar(s, 'std::json')
        A = 'anytype'
        B = 'std::bool'
        s = _operator(s, '=', OPK.Infix, [('l', A, SINGLE), ('r', A, SINGLE)], B, sqlop='=')
        s = _operator(s, '!=', OPK.Infix, [('l', A, SINGLE), ('r', A, SINGLE)], B, sqlop='<>')
        s = _operator(s, '?=', OPK.Infix, [('l', A, OPT), ('r', A, OPT)], B)
        s = _operator(s, 'IN', OPK.Infix, [('e', A, SINGLE), ('s', A, SETOF)], B,
                      fields=[('derivative_of', 'std::='), ('is_singleton_set_of', True)])
        s = _operator(s, 'EXISTS', OPK.Prefix, [('s', A, SETOF)], B, fields=[('is_singleton_set_of', True)])
        s = _operator(s, 'DISTINCT', OPK.Prefix, [('s', A, SETOF)], A, retmod=SETOF)
        s = _operator(s, 'UNION', OPK.Infix, [('s1', A, SETOF), ('s2', A, SETOF)], A, retmod=SETOF)
        s = _operator(s, '??', OPK.Infix, [('l', A, OPT), ('r', A, SETOF)], A, retmod=SETOF,
                      fields=[('is_singleton_set_of', True)])
        s = _operator(s, 'IF', OPK.Ternary, [('if_true', A, SETOF), ('condition', B, SINGLE), ('if_false', A, SETOF)], A,
                      retmod=SETOF, fields=[('is_singleton_set_of', True)])
        s = _operator(s, 'AND', OPK.Infix, [('a', B, SINGLE), ('b', B, SINGLE)], B, fields=[('impl_is_strict', False)])
        s = _operator(s, 'OR', OPK.Infix, [('a', B, SINGLE), ('b', B, SINGLE)], B, fields=[('impl_is_strict', False)])
        s = _operator(s, 'NOT', OPK.Prefix, [('v', B, SINGLE)], B)
        s = _operator(s, '+', OPK.Infix, [('l', 'std::int64', SINGLE), ('r', 'std::int64', SINGLE)], 'std::int64', sqlop='+')
        s = _operator(s, '++', OPK.Infix, [('l', 'std::str', SINGLE), ('r', 'std::str', SINGLE)], 'std::str', sqlop='||')
        s = _function(s, 'count', [('s', A, SETOF)], 'std::int64', sqlfunc='count', fields=[('initial_value', 0)])
        # runtime cardinality assertions (20-genericfuncs.edgeql): the compiler wraps required pointers in them
        # when access policies may filter the target
        _empty_str = lambda: qlast.TypeCast(type=_tn('std::str'), expr=qlast.Set(elements=[]))     # noqa: E731
        s = _function(s, 'assert_exists', [('input', A, SETOF)], A, retmod=SETOF, fields=[('preserves_upper_cardinality', True)],
                      named=[('message', 'std::str', OPT, _empty_str())])
        s = _function(s, 'assert_single', [('input', A, SETOF)], A, retmod=OPT, fields=[('preserves_optionality', True)],
                      named=[('message', 'std::str', OPT, _empty_str())])
        s = _function(s, 'assert_distinct', [('input', A, SETOF)], A, retmod=SETOF,
                      fields=[('preserves_optionality', True), ('preserves_upper_cardinality', True)],
                      named=[('message', 'std::str', OPT, _empty_str())])
        # std::BaseObject.id as in edb/lib/std/60-baseobject.edgeql (required, read-only, generated default);
        # the exclusive constraint on it is omitted (concrete constraints need compiled expressions)
        s = _function(s, 'uuid_generate_v1mc', [], 'std::uuid', sqlfunc='edgedb.uuid_generate_v1mc',
                      fields=[('volatility', 'Volatile')])
        s = _std(s, qlast.AlterObjectType(
            name=qlast.ObjectRef(module='std', name='BaseObject', itemclass=K.OC.TYPE),
            commands=[qlast.CreateConcreteProperty(
                name=qlast.ObjectRef(name='id', itemclass=K.OC.PROPERTY), target=K._tn('std::uuid'), is_required=True,
                cardinality=qltypes.SchemaCardinality.One,
                commands=[qlast.SetField(name='default', value=qlast.FunctionCall(func=('std', 'uuid_generate_v1mc'), args=[])),
                          qlast.SetField(name='readonly', value=qlast.Constant.boolean(True))])]))
        _STD_PLUS = s
        K.restore_ids(_st)
    return _STD_PLUS


# ---------------------------------------------------------------------------
# user schema

_USER = None
OC = K.OC


def user_schema():
    """module default {
         type Person { required name: str; nick: str; multi tags: str; required age: int64;
                       best: Person; multi friends: Person }
         type Admin extending Person { level: int64 }
         type Chief extending Admin
         type Post { required author: Person; title: str; multi likes: Person }
       }"""
    global _USER
    if _USER is None:
        st = K.id_state()
        K.reset_ids(0, start=7 * 10 ** 8)
        s = K.create_module(std_plus(), 'default')
        old = K.ddl
        try:
            s = K.create_type(s, 'default::Person')
            s = K.create_property(s, 'default::Person', 'name', required=True)
            s = K.create_property(s, 'default::Person', 'nick')
            s = K.create_property(s, 'default::Person', 'tags', multi=True)
            s = K.create_property(s, 'default::Person', 'age', target='std::int64', required=True)
            s = K.create_link(s, 'default::Person', 'best', 'default::Person')
            s = K.create_link(s, 'default::Person', 'friends', 'default::Person', multi=True)
            s = K.create_type(s, 'default::Admin', bases=('default::Person',))
            s = K.create_property(s, 'default::Admin', 'level', target='std::int64')
            s = K.create_type(s, 'default::Chief', bases=('default::Admin',))
            s = K.create_type(s, 'default::Post')
            s = K.create_link(s, 'default::Post', 'author', 'default::Person', required=True)
            s = K.create_property(s, 'default::Post', 'title')
            s = K.create_link(s, 'default::Post', 'likes', 'default::Person', multi=True)
        finally:
            K.ddl = old
            K.restore_ids(st)
        _USER = s
    return _USER


# ---------------------------------------------------------------------------
# terms -> qlast
#
# A query is a nested tuple ("term").  to_ast() builds the qlast node the
# parser would build for the corresponding text; text() renders a readable form.

def _objref(name):
    mod, _, n = name.rpartition('::')
    return qlast.ObjectRef(name=n, module=mod or None)


def _path(*steps, partial=False):
    return qlast.Path(steps=list(steps), partial=partial)


def to_ast(t):
    k = t[0]
    if k == 'type':                       # ('type', 'Person')
        return _path(_objref('default::' + t[1]))
    if k == 'var':                        # ('var', 'x')
        return _path(qlast.ObjectRef(name=t[1]))
    if k == 'path':                       # ('path', term, 'ptr')
        base = to_ast(t[1])
        if isinstance(base, qlast.Path):
            return qlast.Path(steps=list(base.steps) + [qlast.Ptr(name=t[2])], partial=base.partial)
        return _path(base, qlast.Ptr(name=t[2]))
    if k == 'spath':                      # ('spath', 'ptr')  ->  .ptr
        return _path(qlast.Ptr(name=t[1]), partial=True)
    if k == 'isa':                        # ('isa', term, 'Admin')  ->  term[is Admin]
        base = to_ast(t[1])
        ti = qlast.TypeIntersection(type=K._tn('default::' + t[2]))
        if isinstance(base, qlast.Path):
            return qlast.Path(steps=list(base.steps) + [ti], partial=base.partial)
        return _path(base, ti)
    if k == 'str':
        return qlast.Constant.string(t[1])
    if k == 'int':
        return qlast.Constant.integer(t[1])
    if k == 'bool':
        return qlast.Constant.boolean(t[1])
    if k == 'empty':                      # ('empty', 'std::str')  ->  <str>{}
        return qlast.TypeCast(type=K._tn(t[1]), expr=qlast.Set(elements=[]))
    if k == 'param':                      # ('param', name, 'std::str', optional)
        return qlast.TypeCast(type=K._tn(t[2]), expr=qlast.Parameter(name=t[1]),
                              cardinality_mod=qlast.CardinalityModifier.Optional if t[3] else None)
    if k == 'tuple':
        return qlast.Tuple(elements=[to_ast(x) for x in t[1:]])
    if k == 'set':
        return qlast.Set(elements=[to_ast(x) for x in t[1:]])
    if k in ('union', 'eq', 'neq', 'in', 'coalesce', 'and', 'or', 'plus', 'concat'):
        op = {'union': 'UNION', 'eq': '=', 'neq': '!=', 'in': 'IN', 'coalesce': '??', 'and': 'AND', 'or': 'OR',
              'plus': '+', 'concat': '++'}[k]
        return qlast.BinOp(left=to_ast(t[1]), op=op, right=to_ast(t[2]))
    if k in ('exists', 'distinct', 'not'):
        return qlast.UnaryOp(op=k.upper(), operand=to_ast(t[1]))
    if k == 'count':
        return qlast.FunctionCall(func='count', args=[to_ast(t[1])])
    if k == 'if':                         # ('if', cond, a, b)  ->  a if cond else b
        return qlast.IfElse(condition=to_ast(t[1]), if_expr=to_ast(t[2]), else_expr=to_ast(t[3]))
    if k == 'detached':
        return qlast.DetachedExpr(expr=to_ast(t[1]))
    if k == 'select':                     # ('select', term, filter|None, limit|None, offset|None)
        return qlast.SelectQuery(result=to_ast(t[1]), where=to_ast(t[2]) if t[2] else None,
                                 limit=to_ast(t[3]) if len(t) > 3 and t[3] else None,
                                 offset=to_ast(t[4]) if len(t) > 4 and t[4] else None)
    if k == 'shape':                      # ('shape', term, [(name, None | term | ('nested', [...]))])
        return qlast.Shape(expr=to_ast(t[1]), elements=[_shape_el(e) for e in t[2]])
    if k == 'for':                        # ('for', 'x', iter, body)
        return qlast.ForQuery(iterator=to_ast(t[2]), iterator_alias=t[1], result=to_ast(t[3]))
    if k == 'with':                       # ('with', 'x', value, body-select-term)
        body = to_ast(t[3])
        if not isinstance(body, (qlast.SelectQuery, qlast.ForQuery, qlast.InsertQuery, qlast.UpdateQuery, qlast.DeleteQuery)):
            body = qlast.SelectQuery(result=body)
        body.aliases = [qlast.AliasedExpr(alias=t[1], expr=to_ast(t[2]))]
        return body
    if k == 'insert':                     # ('insert', 'Person', [(ptr, term)])
        return qlast.InsertQuery(subject=_objref('default::' + t[1]), shape=[_assign(p, v) for p, v in t[2]])
    if k == 'update':                     # ('update', term, filter|None, [(ptr, term, op)])
        return qlast.UpdateQuery(subject=to_ast(t[1]), where=to_ast(t[2]) if t[2] else None,
                                 shape=[_assign(*a) for a in t[3]])
    if k == 'delete':                     # ('delete', term, filter|None)
        return qlast.DeleteQuery(subject=to_ast(t[1]), where=to_ast(t[2]) if t[2] else None)
    raise ValueError('unknown term %r' % (k,))


def _assign(ptr, value, op='assign'):
    sop = {'assign': qlast.ShapeOp.ASSIGN, 'append': qlast.ShapeOp.APPEND, 'subtract': qlast.ShapeOp.SUBTRACT}[op]
    return qlast.ShapeElement(expr=_path(qlast.Ptr(name=ptr)), compexpr=to_ast(value), operation=qlast.ShapeOperation(op=sop))


def _shape_el(e):
    name, v = e
    if v is None:
        return qlast.ShapeElement(expr=_path(qlast.Ptr(name=name)))
    if v[0] == 'nested':
        return qlast.ShapeElement(expr=_path(qlast.Ptr(name=name)), elements=[_shape_el(x) for x in v[1]])
    return qlast.ShapeElement(expr=_path(qlast.Ptr(name=name)), compexpr=to_ast(v),
                              operation=qlast.ShapeOperation(op=qlast.ShapeOp.ASSIGN))


def as_statement(t):
    node = to_ast(t)
    if isinstance(node, (qlast.SelectQuery, qlast.ForQuery, qlast.InsertQuery, qlast.UpdateQuery, qlast.DeleteQuery)):
        return node
    return qlast.SelectQuery(result=node)


def text(t) -> str:
    from edb.edgeql import codegen
    return codegen.generate_source(as_statement(t), pretty=False)


def contains_dml(t) -> bool:
    if not isinstance(t, tuple):
        if isinstance(t, list):
            return any(contains_dml(x) for x in t)
        return False
    if t and t[0] in ('insert', 'update', 'delete'):
        return True
    return any(contains_dml(x) for x in t[1:])


def compile_ir(t, schema=None, **opts):
    schema = schema or user_schema()
    return qlcompiler.compile_ast_to_ir(as_statement(t), schema,
                                        options=coptions.CompilerOptions(modaliases={None: 'default'}, **opts))


def compile_sql(ir, **kw):
    from edb.pgsql import compiler as pgcompiler
    from edb.pgsql import codegen as pgcodegen
    res = pgcompiler.compile_ir_to_sql_tree(ir, output_format=kw.pop('output_format', pgcompiler.OutputFormat.NATIVE), **kw)
    return res, pgcodegen.generate_source(res.ast)


# ---------------------------------------------------------------------------
# The only text the compilers need to parse for this query family is the
# `initial_value` of std::count ("0").  A table-driven stand-in for
# parser.parse_fragment serves exactly the listed fragments and refuses
# everything else.

_FRAGMENTS = {
    '0': lambda: qlast.Constant.integer(0),
    'std::uuid_generate_v1mc()': lambda: qlast.FunctionCall(func=('std', 'uuid_generate_v1mc'), args=[]),
    '<std::str>{}': lambda: qlast.TypeCast(type=_tn('std::str'), expr=qlast.Set(elements=[])),
}


def _norm_fragment(txt: str) -> str:
    key = ' '.join(txt.split())
    while key.startswith('(') and key.endswith(')'):
        depth = 0
        for i, ch in enumerate(key):
            depth += ch == '('
            depth -= ch == ')'
            if depth == 0 and i < len(key) - 1:
                break
        else:
            key = key[1:-1].strip()
            continue
        break
    return key


def register_fragment(node):
    """Makes the text the code generator prints for `node` parse back to (a copy of) `node`:
    the table-driven stand-in for the parser then serves expressions the harness itself put into
    the schema (policy conditions).  That the real parser reads that text the same way is
    property C01 and is not decided here."""
    import copy
    from edb.edgeql import codegen
    txt = codegen.generate_source(node, pretty=False)
    _FRAGMENTS[_norm_fragment(txt)] = lambda node=node: copy.deepcopy(node)


def _parse_fragment(source, filename=None):
    txt = source if isinstance(source, str) else getattr(source, 'text', lambda: None)()
    if txt is None:
        txt = str(source)
    key = _norm_fragment(txt)
    if key in _FRAGMENTS:
        return _FRAGMENTS[key]()
    raise NotImplementedError('native parser not available in this sandbox (fragment %r)' % (key[:40],))


from edb.edgeql import parser as _qlparser  # noqa: E402
_qlparser.parse_fragment = _parse_fragment
