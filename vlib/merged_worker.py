"""One process per configuration of the merged (E2) encoding of sort_ex.

usage: python -m vlib.merged_worker '<json config>'   ->  one JSON line on stdout

Per configuration: (1) translator validation (evaluator on concrete graphs vs
CPython on the real function), (2) encoding of the symbolic graph from the
current source, (3) vacuity witnesses (both outcomes satisfiable), (4) the
unwinding assertion (no call beyond the recursion bound is reachable), (5) one
solver query per negated property; a model is replayed on the real function
before it is reported."""
import json
import sys
import time


def main():
    cfg = json.loads(sys.argv[1])
    from vlib import shims
    shims.install()
    import z3
    from vlib import pysym
    from vlib.harness import C20_merged as M
    N, kinds, dang, allow = cfg['N'], tuple(cfg['kinds']), cfg['dangling'], cfg['allow']
    timeout = cfg.get('timeout', 600)
    out = {'config': cfg, 'queries': [], 'status': 'ok'}
    try:
        t = time.time()
        nval, bad = M.validate_evaluator(min(N, 3), kinds, dang, samples=cfg.get('validate', 150), seed=cfg.get('seed', 1))
        out['validation'] = {'graphs': nval, 'disagreements': [repr(b)[:400] for b in bad], 'wall_s': round(time.time() - t, 1)}
        if bad:
            out['status'] = 'model_mismatch'
            print(json.dumps(out))
            return
        t = time.time()
        E = M.encode(N, kinds, dang, allow)
        props = M.properties(E)
        out['encoding'] = {'frames': E.frames, 'definitions': len(E.ctx.defs), 'input_bits': len(E.bits),
                           'order_entries': len(E.order.entries), 'build_s': round(time.time() - t, 1)}
        # vacuity witnesses
        T = E.T
        for name, f in (('witness.completes', E.completed), ('witness.cycle', E.exc(T.CycleError))):
            r, dt, m = M.solve(E, f, timeout)
            out['queries'].append({'name': name, 'expect': 'sat', 'result': r, 'solver_s': round(dt, 2)})
            if r != 'sat':
                out['status'] = 'vacuous'
        # unwinding assertion
        if E.overflow:
            f = z3.Or([g.expr() for g in E.overflow])
            r, dt, m = M.solve(E, f, timeout)
            out['queries'].append({'name': 'unwinding_assertion', 'expect': 'unsat', 'result': r, 'solver_s': round(dt, 2)})
            if r != 'unsat':
                out['status'] = 'unwinding_bound_too_small'
        else:
            out['queries'].append({'name': 'unwinding_assertion', 'expect': 'unsat', 'result': 'unsat',
                                   'note': 'no call reached the recursion bound during encoding', 'solver_s': 0})
        for name, neg in props.items():
            r, dt, m = M.solve(E, neg, timeout)
            q = {'name': name, 'expect': 'unsat', 'result': r, 'solver_s': round(dt, 2)}
            if r == 'sat':
                q['model'] = {k: v for k, v in m.items() if v}
                q['real'] = repr(M.run_real(N, m, kinds, dang, allow))
                q['replay_violations'] = M.oracle_violations_ext(N, m, kinds, dang, allow, name)
            elif r == 'unsat' and cfg.get('cross_check') and name in cfg['cross_check']:
                r2, dt2 = M.solve_cvc5(E, neg, cfg.get('cross_timeout', 300))
                q['second_solver'] = {'engine': 'cvc5 binary on the SMT-LIB2 dump of the same query', 'result': r2, 'solver_s': round(dt2, 2)}
                if r2 == 'sat':
                    q['result'] = 'solver_disagreement'
            out['queries'].append(q)
    except pysym.Unsupported as e:
        out['status'] = 'unsupported'
        out['detail'] = str(e)
    except Exception as e:           # noqa: BLE001
        import traceback
        out['status'] = 'error'
        out['detail'] = traceback.format_exc()[-1500:]
    print(json.dumps(out))


if __name__ == '__main__':
    main()
