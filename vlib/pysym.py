"""Engine E2 - PySym: merged (predicated) symbolic evaluation of a Python
function's AST into one SMT formula.

The function source is read from the live object (inspect.getsource) on every
run.  Every statement runs under a path guard; side effects are guarded
updates; exceptions are guarded completion records; containers over a concrete
key universe have symbolic membership.  Guards are *conjunctions of atoms*
(complex conditions get a fresh defined atom), which makes "this guard implies
that guard" a subset test - enough path sensitivity to fold away, e.g., the
re-entry of a key that is concretely on the current call path.

Anything outside the supported subset raises Unsupported: the engine fails
closed (the caller reports the obligation as inconclusive)."""
from __future__ import annotations

import ast
import inspect
import textwrap
from typing import Any, Dict, List, Optional, Tuple

import z3


class Unsupported(Exception):
    pass


class UnwindingExceeded(Exception):
    pass


# ---------------------------------------------------------------------------
# guards

class Ctx:
    def __init__(self, width: int = 6):
        self.defs: List[Any] = []        # defining equations of fresh atoms
        self.n = 0
        self.width = width
        self.frames = 0

    def atom(self, expr) -> Tuple[Any, bool]:
        """(z3 Bool constant, polarity) equivalent to expr."""
        expr = z3.simplify(expr) if not z3.is_const(expr) else expr
        if z3.is_not(expr) and z3.is_const(expr.arg(0)):
            return expr.arg(0), False
        if z3.is_const(expr) and not z3.is_true(expr) and not z3.is_false(expr):
            return expr, True
        self.n += 1
        v = z3.Bool('g%d' % self.n)
        self.defs.append(v == expr)
        return v, True

    def fresh_bv(self, expr):
        if z3.is_bv_value(expr) or z3.is_const(expr):
            return expr
        self.n += 1
        v = z3.BitVec('v%d' % self.n, self.width)
        self.defs.append(v == expr)
        return v

    def bv(self, k: int):
        return z3.BitVecVal(k, self.width)


class Guard:
    """Conjunction of literals; FALSE is the unsatisfiable guard."""
    __slots__ = ('lits', 'false', 'e')

    def __init__(self, lits=frozenset(), false=False, e=None):
        self.lits = lits
        self.false = false
        self.e = e              # cached z3 expression (built incrementally by conj)

    def expr(self):
        if self.false:
            return z3.BoolVal(False)
        if not self.lits:
            return z3.BoolVal(True)
        return z3.And([a if pol else z3.Not(a) for a, pol in self._sorted()])

    def _sorted(self):
        return sorted(self.lits, key=lambda x: (str(x[0]), x[1]))

    def implies(self, other: 'Guard') -> bool:
        if self.false:
            return True
        if other.false:
            return False
        return other.lits <= self.lits

    def conj(self, ctx: Ctx, cond) -> 'Guard':
        """self AND cond (cond: python bool or z3 Bool)."""
        if self.false:
            return self
        if cond is True:
            return self
        if cond is False:
            return FALSE
        cond = z3.simplify(cond)
        if z3.is_true(cond):
            return self
        if z3.is_false(cond):
            return FALSE
        a, pol = ctx.atom(cond)
        key = (_Key(a), pol)
        if (_Key(a), not pol) in self.lits:
            return FALSE
        lit = a if pol else z3.Not(a)
        return Guard(self.lits | {key}, e=(lit if not self.lits else z3.And(self.expr(), lit)))


class _Key:
    """Hashable wrapper for a z3 constant (z3 overloads ==)."""
    __slots__ = ('c', 'h')

    def __init__(self, c):
        self.c = c
        self.h = c.get_id()

    def __hash__(self):
        return self.h

    def __eq__(self, o):
        return self.h == o.h

    def __str__(self):
        return str(self.c)


def _lits_expr(g: Guard):
    if g.e is not None:
        return g.e
    if g.false:
        return z3.BoolVal(False)
    if not g.lits:
        return z3.BoolVal(True)
    parts = []
    for k, pol in sorted(g.lits, key=lambda x: (x[0].h, x[1])):
        parts.append(k.c if pol else z3.Not(k.c))
    return z3.And(parts) if len(parts) > 1 else parts[0]


Guard.expr = _lits_expr       # type: ignore
TRUE = Guard()
FALSE = Guard(false=True)


# ---------------------------------------------------------------------------
# symbolic state

class Cell:
    """A boolean cell with guarded updates (path-sensitive reads)."""
    __slots__ = ('updates',)

    def __init__(self, init=False):
        self.updates: List[Tuple[Guard, Any]] = [(TRUE, init)]

    def write(self, g: Guard, val):
        if g.false:
            return
        last = self.updates[-1][0]
        if len(self.updates) > 1 and not last.false and last.lits == g.lits:
            # same guard: the later write wins; a write restoring the older value cancels out
            self.updates.pop()
            older = self._read(g, len(self.updates))
            if isinstance(older, bool) and isinstance(val, bool) and older == val:
                return
        self.updates.append((g, val))

    def read(self, g: Guard):
        return self._read(g, len(self.updates))

    def _read(self, g: Guard, upto: int):
        """Value visible under guard g: python bool when determined, else z3."""
        maybe = []
        base = None
        for i in range(upto - 1, -1, -1):
            ug, val = self.updates[i]
            if g.implies(ug):
                base = val          # certainly applies: nothing older matters
                break
            if _contradicts(g, ug):
                continue            # certainly does not apply on this path
            maybe.append((ug, val))
        assert base is not None
        result = base
        for ug, val in reversed(maybe):
            if isinstance(val, bool) and isinstance(result, bool) and val == result:
                continue
            result = _ite(ug.expr(), _b(val), _b(result))
            pb = _pybool(result)
            if pb is not None:
                result = pb
        return result


def _contradicts(g: Guard, other: Guard) -> bool:
    if g.false or other.false:
        return True
    small, big = (g.lits, other.lits) if len(g.lits) < len(other.lits) else (other.lits, g.lits)
    for k, pol in small:
        if (k, not pol) in big:
            return True
    return False


def _b(v):
    if isinstance(v, bool):
        return z3.BoolVal(v)
    return v


def _ite(c, a, b):
    r = z3.simplify(z3.If(c, a, b))
    return r


def _pybool(v):
    """python bool if v is a decided value, else None."""
    if isinstance(v, bool):
        return v
    if z3.is_true(v):
        return True
    if z3.is_false(v):
        return False
    return None


class SSet:
    """Set over a concrete universe with symbolic membership (iteration in
    universe order: what CPython does for a set of small ints)."""

    def __init__(self, ctx: Ctx, universe, init=None):
        self.ctx = ctx
        self.universe = list(universe)
        self.cells = {k: Cell(False) for k in self.universe}
        if init:
            for k, m in init.items():
                self.cells[k] = Cell(m)

    def has(self, k, g: Guard):
        if k not in self.cells:
            return False
        return self.cells[k].read(g)

    def add(self, k, g: Guard):
        if k not in self.cells:
            raise Unsupported('key %r outside the universe of a symbolic set' % (k,))
        self.cells[k].write(g, True)

    def remove(self, k, g: Guard):
        # set.remove of an absent key raises KeyError: only a present key is supported
        if self.cells[k].read(g) is not True:
            raise Unsupported('remove() of a key that is not certainly present')
        self.cells[k].write(g, False)

    def iter_entries(self, g: Guard):
        """(key, membership) in iteration order."""
        out = []
        for k in self.universe:
            m = self.cells[k].read(g)
            if m is False:
                continue
            out.append((k, m))
        return out

    def truthy(self, g: Guard):
        ms = [m for _k, m in self.iter_entries(g)]
        if any(m is True for m in ms):
            return True
        if not ms:
            return False
        return z3.Or([_b(m) for m in ms])

    def count(self, g: Guard):
        ctx = self.ctx
        total = ctx.bv(0)
        for k in self.universe:
            m = self.cells[k].read(g)
            if m is False:
                continue
            if m is True:
                total = total + ctx.bv(1)
            else:
                total = total + z3.If(_b(m), ctx.bv(1), ctx.bv(0))
        return z3.simplify(total)


class SOrdSet(SSet):
    """Insertion-ordered set.  Every add() happens at a concrete program point,
    so the sequence of insertion attempts is concrete; an attempt creates an
    entry guarded by "the attempt ran and the key was absent".  Iteration
    yields the entries in attempt order."""

    def __init__(self, ctx: Ctx, universe):
        super().__init__(ctx, universe)
        self.entries: List[Tuple[Any, Guard]] = []
        self.removed = False

    def add(self, k, g: Guard):
        if k not in self.cells:
            raise Unsupported('key %r outside the universe of a symbolic set' % (k,))
        m = self.cells[k].read(g)
        if m is True:
            return
        eg = g if m is False else g.conj(self.ctx, z3.Not(m))
        self.entries.append((k, eg))
        self.cells[k].write(g, True)

    def remove(self, k, g: Guard):
        super().remove(k, g)
        self.removed = True

    def iter_entries(self, g: Guard):
        if self.removed:
            raise Unsupported('iteration over an ordered set after remove()')
        out = []
        for k, eg in self.entries:
            if g.implies(eg):
                out.append((k, True))
            elif _contradicts(g, eg):
                continue
            else:
                out.append((k, eg.expr()))
        return out


class SList:
    def __init__(self, ctx: Ctx):
        self.ctx = ctx
        self.entries: List[Tuple[Any, Guard]] = []

    def append(self, v, g: Guard):
        if not g.false:
            self.entries.append((v, g))


class SDefaultDict:
    def __init__(self, factory):
        self.factory = factory
        self.d: Dict[Any, Any] = {}

    def get(self, k):
        if k not in self.d:
            self.d[k] = self.factory()
        return self.d[k]


class Closure:
    def __init__(self, node: ast.FunctionDef, env: 'Env'):
        self.node = node
        self.env = env


class VarCell:
    """A variable assigned under guards (e.g. a loop variable)."""
    __slots__ = ('updates',)

    def __init__(self):
        self.updates: List[Tuple[Guard, Any]] = []

    def read(self, g: Guard):
        for ug, val in reversed(self.updates):
            if g.implies(ug):
                return val
            if _contradicts(g, ug):
                continue
            return PLACEHOLDER      # may or may not have been assigned on this path: poison
        raise KeyError('unassigned')


class Env:
    def __init__(self, parent: Optional['Env'] = None):
        self.vars: Dict[str, Any] = {}
        self.parent = parent

    def lookup(self, name, g: Guard = None):
        e = self
        while e is not None:
            if name in e.vars:
                v = e.vars[name]
                if isinstance(v, VarCell):
                    return v.read(g if g is not None else TRUE)
                return v
            e = e.parent
        raise KeyError(name)

    def holder(self, name):
        e = self
        while e is not None:
            if name in e.vars:
                return e
            e = e.parent
        return None

    def set(self, name, value):
        self.vars[name] = value

    def assign(self, name, value, g: Guard):
        h = self.holder(name)
        if h is None or h is not self:
            # python: assignment creates/rebinds a local (closures here never rebind outer names)
            h = self
        cur = h.vars.get(name)
        if not g.lits and not g.false:
            h.vars[name] = value
            return
        if not isinstance(cur, VarCell):
            cell = VarCell()
            if name in h.vars:
                cell.updates.append((TRUE, cur))
            h.vars[name] = cell
            cur = cell
        cur.updates.append((g, value))


class Raised:
    __slots__ = ('guard', 'cls')

    def __init__(self, guard: Guard, cls):
        self.guard, self.cls = guard, cls


PLACEHOLDER = object()      # value of expressions that only feed error messages


class Evaluator:
    def __init__(self, ctx: Ctx, globals_: Dict[str, Any], max_depth: int):
        self.ctx = ctx
        self.globals = globals_
        self.max_depth = max_depth
        self.depth = 0
        self.overflow: List[Guard] = []        # guards of calls beyond the unwinding bound

    # -- statements ---------------------------------------------------------------
    def exec_block(self, stmts, env: Env, g: Guard, raised: List[Raised]) -> Guard:
        """Executes stmts under g; appends guarded exceptions to `raised`;
        returns the guard of normal completion."""
        for st in stmts:
            if g.false:
                break
            g = self.exec_stmt(st, env, g, raised)
        return g

    def exec_stmt(self, st, env: Env, g: Guard, raised: List[Raised]) -> Guard:
        ctx = self.ctx
        if isinstance(st, ast.Expr):
            if isinstance(st.value, ast.Constant):
                return g
            _v, g2 = self.eval(st.value, env, g, raised)
            return g2
        if isinstance(st, (ast.Assign, ast.AnnAssign)):
            if isinstance(st, ast.AnnAssign):
                if st.value is None:
                    return g
                targets = [st.target]
            else:
                targets = st.targets
            v, g2 = self.eval(st.value, env, g, raised)
            for t in targets:
                self.assign(t, v, env, g2)
            return g2
        if isinstance(st, ast.Pass):
            return g
        if isinstance(st, ast.FunctionDef):
            env.set(st.name, Closure(st, env))
            return g
        if isinstance(st, ast.If):
            c, g = self.eval(st.test, env, g, raised)
            c = self.truth(c, g)
            pb = _pybool(c)
            if pb is True:
                return self.exec_block(st.body, env, g, raised)
            if pb is False:
                return self.exec_block(st.orelse, env, g, raised)
            gt = g.conj(ctx, c)
            gf = g.conj(ctx, z3.Not(c))
            gt2 = self.exec_block(st.body, env, gt, raised)
            gf2 = self.exec_block(st.orelse, env, gf, raised)
            if gt2 is gt and gf2 is gf:
                return g
            return self.join(g, [gt2, gf2])
        if isinstance(st, ast.For):
            if st.orelse:
                raise Unsupported('for-else')
            it, g = self.eval(st.iter, env, g, raised)
            for elem, member in self.iterate(it, g):
                if g.false:
                    break
                pb = _pybool(member)
                if pb is False:
                    continue
                gi = g if pb is True else g.conj(ctx, member)
                self.assign(st.target, elem, env, gi)
                gi2 = self.exec_block(st.body, env, gi, raised)
                if pb is True or gi2 is gi:
                    g = gi2 if pb is True else g
                else:
                    g = self.join(g, [gi2, g.conj(ctx, z3.Not(member))])
            return g
        if isinstance(st, ast.Raise):
            if st.exc is None:
                cls = env.lookup('__active_exception__')
            else:
                cls = self.exc_class(st.exc, env)
            raised.append(Raised(g, cls))
            return FALSE
        if isinstance(st, ast.Try):
            return self.exec_try(st, env, g, raised)
        if isinstance(st, ast.Return):
            v = None
            if st.value is not None:
                v, g = self.eval(st.value, env, g, raised)
            env.set('__return__', v)
            return g          # only a trailing return is supported (checked by check_supported)
        if isinstance(st, ast.Nonlocal) or isinstance(st, ast.Global):
            return g
        raise Unsupported('statement %s' % type(st).__name__)

    def join(self, outer: Guard, guards: List[Guard]) -> Guard:
        """Guard of "one of `guards` holds" (each implies outer)."""
        live = [x for x in guards if not x.false]
        if not live:
            return FALSE
        if len(live) == 1 and len(guards) == 1:
            return live[0]
        for x in live:
            if x.lits == outer.lits:
                return outer
        return outer.conj(self.ctx, z3.Or([x.expr() for x in live]))

    def exec_try(self, st: ast.Try, env: Env, g: Guard, raised: List[Raised]) -> Guard:
        ctx = self.ctx
        inner: List[Raised] = []
        g_body = self.exec_block(st.body, env, g, inner)
        if st.orelse:
            g_body = self.exec_block(st.orelse, env, g_body, inner)
        outs = [g_body]
        pending = inner
        for h in st.handlers:
            if h.type is None:
                classes = (BaseException,)
            else:
                t = self.static_value(h.type, env)
                classes = t if isinstance(t, tuple) else (t,)
            caught = [r for r in pending if issubclass(r.cls, classes)]
            pending = [r for r in pending if not issubclass(r.cls, classes)]
            if not caught:
                continue
            # one handler run per exception class (the handler may re-raise it)
            by_cls: Dict[Any, List[Raised]] = {}
            for r in caught:
                by_cls.setdefault(r.cls, []).append(r)
            for cls, rs in by_cls.items():
                gh = self.join(g, [r.guard for r in rs])
                saved = env.vars.get('__active_exception__', None)
                env.vars['__active_exception__'] = cls
                if h.name:
                    env.assign(h.name, PLACEHOLDER, gh)
                hraised: List[Raised] = []
                try:
                    gh2 = self.exec_block(h.body, env, gh, hraised)
                finally:
                    if saved is None:
                        env.vars.pop('__active_exception__', None)
                    else:
                        env.vars['__active_exception__'] = saved
                outs.append(gh2)
                pending = pending + hraised
        g_after = self.join(g, outs)
        if st.finalbody:
            # the finally block runs on every way out of the statement
            fr: List[Raised] = []
            g_all = g          # every path that entered the try statement
            g_fin = self.exec_block(st.finalbody, env, g_all, fr)
            if fr:
                raise Unsupported('finally block that can raise')
            if g_fin.lits != g_all.lits:
                raise Unsupported('finally block with conditional completion')
        raised.extend(pending)
        return g_after

    # -- expressions ---------------------------------------------------------------
    def static_value(self, node, env: Env):
        if isinstance(node, ast.Name):
            try:
                return env.lookup(node.id)
            except KeyError:
                if node.id in self.globals:
                    return self.globals[node.id]
                import builtins
                return getattr(builtins, node.id)
        if isinstance(node, ast.Tuple):
            return tuple(self.static_value(e, env) for e in node.elts)
        if isinstance(node, ast.Attribute):
            return getattr(self.static_value(node.value, env), node.attr)
        raise Unsupported('static expression %s' % ast.dump(node)[:60])

    def exc_class(self, node, env: Env):
        if isinstance(node, ast.Call):
            node = node.func          # arguments only build the message
        v = self.static_value(node, env)
        if not (isinstance(v, type) and issubclass(v, BaseException)):
            raise Unsupported('raise of a non-class')
        return v

    def truth(self, v, g: Guard):
        if v is None:
            return False
        if isinstance(v, bool):
            return v
        if isinstance(v, SSet):
            return v.truthy(g)
        if z3.is_expr(v) and z3.is_bool(v):
            return z3.simplify(v)
        if isinstance(v, (int, str, tuple, list, dict)):
            return bool(v)
        if v is PLACEHOLDER:
            raise Unsupported('truth value of a message-only expression')
        return True      # other objects

    def assign(self, target, v, env: Env, g: Guard):
        if isinstance(target, ast.Name):
            env.assign(target.id, v, g)
            return
        if isinstance(target, ast.Tuple):
            if not isinstance(v, tuple) or len(v) != len(target.elts):
                raise Unsupported('tuple assignment')
            for t, x in zip(target.elts, v):
                self.assign(t, x, env, g)
            return
        raise Unsupported('assignment target %s' % type(target).__name__)

    def iterate(self, it, g: Guard):
        if isinstance(it, SSet):
            return it.iter_entries(g)
        if isinstance(it, (list, tuple)):
            return [(x, True) for x in it]
        if isinstance(it, dict):
            return [(x, True) for x in it]
        if isinstance(it, SList):
            return [(v, gg.expr() if gg.lits else True) for v, gg in it.entries]
        raise Unsupported('iteration over %s' % type(it).__name__)

    def eval(self, node, env: Env, g: Guard, raised: List[Raised]):
        """-> (value, guard after evaluation)"""
        ctx = self.ctx
        if isinstance(node, ast.Constant):
            return node.value, g
        if isinstance(node, ast.Name):
            try:
                return env.lookup(node.id, g), g
            except KeyError:
                if node.id in self.globals:
                    return self.globals[node.id], g
                import builtins
                if hasattr(builtins, node.id):
                    return getattr(builtins, node.id), g
                raise Unsupported('unknown name ' + node.id)
        if isinstance(node, ast.JoinedStr):
            return PLACEHOLDER, g
        if isinstance(node, ast.Tuple):
            vals = []
            for e in node.elts:
                v, g = self.eval(e, env, g, raised)
                vals.append(v)
            return tuple(vals), g
        if isinstance(node, ast.List):
            if node.elts:
                raise Unsupported('non-empty list display')
            return SList(ctx), g
        if isinstance(node, ast.Set):
            return PLACEHOLDER, g            # only used in `visiting - {item}` for the message
        if isinstance(node, ast.BinOp):
            return PLACEHOLDER, g            # arithmetic only feeds messages here
        if isinstance(node, ast.IfExp):
            return PLACEHOLDER, g
        if isinstance(node, ast.Attribute):
            v, g = self.eval(node.value, env, g, raised)
            if v is PLACEHOLDER:
                return PLACEHOLDER, g
            return getattr(v, node.attr), g
        if isinstance(node, ast.Subscript):
            v, g = self.eval(node.value, env, g, raised)
            k, g = self.eval(node.slice, env, g, raised)
            if v is PLACEHOLDER or k is PLACEHOLDER:
                return PLACEHOLDER, g
            if isinstance(v, SDefaultDict):
                return v.get(k), g
            return v[k], g
        if isinstance(node, ast.UnaryOp) and isinstance(node.op, ast.Not):
            v, g = self.eval(node.operand, env, g, raised)
            t = self.truth(v, g)
            pb = _pybool(t)
            return (not pb) if pb is not None else z3.Not(t), g
        if isinstance(node, ast.BoolOp):
            # short circuit does not matter: operands here have no side effects
            vals = []
            for e in node.values:
                v, g = self.eval(e, env, g, raised)
                vals.append(self.truth(v, g))
            if isinstance(node.op, ast.And):
                if any(_pybool(x) is False for x in vals):
                    return False, g
                rest = [_b(x) for x in vals if _pybool(x) is not True]
                return (True if not rest else z3.And(rest)), g
            if any(_pybool(x) is True for x in vals):
                return True, g
            rest = [_b(x) for x in vals if _pybool(x) is not False]
            return (False if not rest else z3.Or(rest)), g
        if isinstance(node, ast.Compare):
            if len(node.ops) != 1:
                raise Unsupported('chained comparison')
            a, g = self.eval(node.left, env, g, raised)
            b, g = self.eval(node.comparators[0], env, g, raised)
            return self.compare(node.ops[0], a, b, g), g
        if isinstance(node, ast.Call):
            return self.call(node, env, g, raised)
        if isinstance(node, ast.GeneratorExp) or isinstance(node, ast.ListComp):
            if len(node.generators) != 1 or node.generators[0].ifs:
                raise Unsupported('comprehension')
            gen = node.generators[0]
            it, g = self.eval(gen.iter, env, g, raised)
            if not isinstance(it, SList):
                raise Unsupported('comprehension over %s' % type(it).__name__)
            return it, g                 # the result is only inspected through the SList
        raise Unsupported('expression %s' % type(node).__name__)

    def compare(self, op, a, b, g: Guard):
        if isinstance(op, (ast.In, ast.NotIn)):
            if isinstance(b, SSet):
                r = b.has(a, g)
            elif isinstance(b, dict):
                r = a in b
            elif b is PLACEHOLDER:
                return PLACEHOLDER
            else:
                raise Unsupported('membership in %s' % type(b).__name__)
            if isinstance(op, ast.NotIn):
                pb = _pybool(r)
                return (not pb) if pb is not None else z3.Not(r)
            return r
        if isinstance(op, (ast.Is, ast.IsNot)):
            if isinstance(a, (SSet, SList)) or isinstance(b, (SSet, SList)) or a is None or b is None:
                r = a is b
                return r if isinstance(op, ast.Is) else not r
            raise Unsupported('identity comparison')
        if isinstance(op, (ast.Eq, ast.NotEq)):
            if z3.is_expr(a) or z3.is_expr(b):
                a2 = a if z3.is_expr(a) else self.ctx.bv(a)
                b2 = b if z3.is_expr(b) else self.ctx.bv(b)
                r = z3.simplify(a2 == b2)
            elif a is PLACEHOLDER or b is PLACEHOLDER:
                return PLACEHOLDER
            else:
                r = a == b
            if isinstance(op, ast.NotEq):
                pb = _pybool(r)
                return (not pb) if pb is not None else z3.Not(r)
            return r
        raise Unsupported('comparison %s' % type(op).__name__)

    def call(self, node: ast.Call, env: Env, g: Guard, raised: List[Raised]):
        ctx = self.ctx
        f = node.func
        # method calls
        if isinstance(f, ast.Attribute):
            recv, g = self.eval(f.value, env, g, raised)
            args = []
            for a in node.args:
                v, g = self.eval(a, env, g, raised)
                args.append(v)
            m = f.attr
            if recv is PLACEHOLDER or (isinstance(recv, str) and m == 'format'):
                return PLACEHOLDER, g
            if isinstance(recv, SSet):
                if m == 'add':
                    recv.add(args[0], g)
                    return None, g
                if m in ('remove', 'discard'):
                    recv.remove(args[0], g)
                    return None, g
                raise Unsupported('set method ' + m)
            if isinstance(recv, SList):
                if m == 'append':
                    recv.append(args[0], g)
                    return None, g
                raise Unsupported('list method ' + m)
            if isinstance(recv, dict):
                if m == 'items':
                    return [(k, v) for k, v in recv.items()], g
                if m == 'values':
                    return list(recv.values()), g
                if m == 'keys':
                    return list(recv.keys()), g
            raise Unsupported('method %s on %s' % (m, type(recv).__name__))
        fn, g = self.eval(f, env, g, raised)
        kwargs = {}
        args = []
        for a in node.args:
            v, g = self.eval(a, env, g, raised)
            args.append(v)
        for kw in node.keywords:
            v, g = self.eval(kw.value, env, g, raised)
            kwargs[kw.arg] = v
        if isinstance(fn, Closure):
            return self.call_closure(fn, args, kwargs, g, raised)
        if fn is len:
            x = args[0]
            if isinstance(x, SSet):
                return x.count(g), g
            if x is PLACEHOLDER:
                return PLACEHOLDER, g
            return len(x), g
        if fn is tuple or fn is list:
            return PLACEHOLDER if (args and args[0] is PLACEHOLDER) else (fn(*args) if not args or not isinstance(args[0], (SSet, SList)) else PLACEHOLDER), g
        model = self.globals.get('__models__', {}).get(fn)
        if model is not None:
            return model(self, *args, **kwargs), g
        raise Unsupported('call of %r' % (fn,))

    def call_closure(self, fn: Closure, args, kwargs, g: Guard, raised: List[Raised]):
        node = fn.node
        self.ctx.frames += 1
        if self.depth >= self.max_depth:
            self.overflow.append(g)
            return None, FALSE            # cut; the unwinding assertion decides whether this matters
        env = Env(fn.env)
        params = node.args
        names = [a.arg for a in params.args]
        defaults = [None] * (len(names) - len(params.defaults)) + list(params.defaults)
        for i, n in enumerate(names):
            if i < len(args):
                env.set(n, args[i])
            elif n in kwargs:
                env.set(n, kwargs[n])
            else:
                d = defaults[i]
                if d is None:
                    raise Unsupported('missing argument ' + n)
                env.set(n, self.static_or_const(d, fn.env))
        for a in params.kwonlyargs:
            raise Unsupported('keyword-only parameter ' + a.arg)
        self.depth += 1
        try:
            g2 = self.exec_block(node.body, env, g, raised)
        finally:
            self.depth -= 1
        ret = env.vars.get('__return__')
        return ret, g2

    def static_or_const(self, node, env):
        if isinstance(node, ast.Constant):
            return node.value
        return self.static_value(node, env)


def _same_obj(a, b):
    try:
        return a is b or (isinstance(a, (int, str, bool)) and isinstance(b, (int, str, bool)) and a == b)
    except Exception:
        return False


def _merge(ctx: Ctx, g: Guard, new, old):
    """Value of a variable assigned `new` under guard g, `old` otherwise."""
    nb, ob = _as_bool(new), _as_bool(old)
    if nb is not None and ob is not None:
        return z3.simplify(z3.If(g.expr(), nb, ob))
    return PLACEHOLDER


def _as_bool(v):
    if isinstance(v, bool):
        return z3.BoolVal(v)
    if z3.is_expr(v) and z3.is_bool(v):
        return v
    return None


def check_supported(node: ast.FunctionDef):
    """A return is only supported as the last statement of a function body."""
    def walk(body, tail_ok):
        for i, st in enumerate(body):
            last = tail_ok and i == len(body) - 1
            if isinstance(st, ast.Return):
                if not last:
                    raise Unsupported('return that is not the last statement')
            elif isinstance(st, ast.FunctionDef):
                walk(st.body, True)
            else:
                for fld in ('body', 'orelse', 'finalbody'):
                    sub = getattr(st, fld, None)
                    if sub:
                        walk(sub, False)
                for h in getattr(st, 'handlers', []):
                    walk(h.body, False)
            if isinstance(st, (ast.Break, ast.Continue, ast.While, ast.With, ast.Yield)):
                raise Unsupported(type(st).__name__)
    walk(node.body, True)


def parse_function(fn):
    src = textwrap.dedent(inspect.getsource(fn))
    mod = ast.parse(src)
    node = mod.body[0]
    if not isinstance(node, ast.FunctionDef):
        raise Unsupported('not a function')
    return node, src
