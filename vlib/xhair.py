"""Engine E1: run CrossHair obligations (one OS process each), parse verdicts,
replay every counterexample natively against /repo before it is believed."""
from __future__ import annotations

import concurrent.futures as cf
import dataclasses
import json
import os
import re
import subprocess
import sys
import tempfile
import time
from typing import Any, Dict, List, Optional

from . import VERIF, VENV_PY, REPO


@dataclasses.dataclass
class Ob:
    id: str
    module: str
    func: str
    params: str
    pre: List[str]
    post: str = '_'
    raises: List[str] = dataclasses.field(default_factory=list)
    timeout: float = 60.0           # CPU seconds for the whole condition
    path_timeout: Optional[float] = None
    expect: str = 'confirm'         # 'confirm' | 'cex' (reachability twin)
    group: str = ''
    bound: str = ''                 # human-readable bound of this obligation
    finding: Optional[str] = None   # known-finding id this instance is restricted to
    args: Optional[str] = None      # argument expressions passed to the harness function (default: the params)

    def spec(self, scratch: str) -> Dict[str, Any]:
        d = dataclasses.asdict(self)
        d['scratch'] = scratch
        return d


def jobs() -> int:
    try:
        return max(1, int(os.environ.get('VERIF_JOBS', '')))
    except ValueError:
        return min(16, os.cpu_count() or 4)


def _env() -> Dict[str, str]:
    env = dict(os.environ)
    env['PYTHONPATH'] = VERIF + os.pathsep + REPO
    env['PYTHONHASHSEED'] = '0'
    env['EDGEDB_VERIF'] = '1'
    env.setdefault('VERIF_REPO', REPO)
    env['PYTHONDONTWRITEBYTECODE'] = '1'
    return env


def _run_worker(args: List[str], timeout: float) -> Dict[str, Any]:
    t0 = time.time()
    try:
        p = subprocess.run([VENV_PY, '-m', 'vlib.xh_worker'] + args, cwd=VERIF,
                           env=_env(), stdout=subprocess.PIPE,
                           stderr=subprocess.PIPE, text=True, timeout=timeout)
    except subprocess.TimeoutExpired:
        return {'error': 'wall-timeout', 'wall_s': round(time.time() - t0, 1)}
    m = p.stdout.rfind('@@RESULT@@')
    if m < 0:
        return {'error': 'no-result rc=%s' % p.returncode,
                'stderr': p.stderr[-2000:], 'stdout': p.stdout[-1000:]}
    try:
        out = json.loads(p.stdout[m + len('@@RESULT@@'):])
    except ValueError as e:
        return {'error': 'bad-json ' + str(e), 'stdout': p.stdout[-1000:]}
    if p.returncode != 0:
        out.setdefault('error', 'rc=%s' % p.returncode)
    return out


def _extract_call(message: str) -> Optional[str]:
    """'... when calling ob(<args>) (which returns X)' -> '<args>'"""
    i = message.find('when calling ob(')
    if i < 0:
        return None
    rest = message[i + len('when calling ob('):].rstrip()
    j = rest.rfind(') (which ')
    if j >= 0:
        return rest[:j]
    if rest.endswith(')'):
        return rest[:-1]
    return None


def _classify(ob: Ob, raw: Dict[str, Any]) -> Dict[str, Any]:
    res = {'id': ob.id, 'group': ob.group, 'bound': ob.bound, 'expect': ob.expect,
           'paths': raw.get('paths', 0), 'completed_paths': raw.get('completed_paths', 0),
           'cpu_s': raw.get('cpu_s', 0.0), 'wall_s': raw.get('wall_s', 0.0),
           'tags': raw.get('tags', {}), 'subjects': raw.get('subjects', [])}
    if 'error' in raw:
        res.update(verdict='error', detail=raw.get('error'), stderr=raw.get('stderr', raw.get('tb', ''))[-1500:])
        return res
    msgs = raw.get('messages', [])
    states = [m['state'] for m in msgs]
    bad = [m for m in msgs if m['state'] in ('POST_FAIL', 'EXEC_ERR', 'POST_ERR')]
    if bad:
        m = bad[0]
        res.update(verdict='cex', message=m['message'][:600], state=m['state'],
                   call=_extract_call(m['message']))
    elif any(s in ('SYNTAX_ERR', 'IMPORT_ERR') for s in states):
        res.update(verdict='error', detail='; '.join(m['message'] for m in msgs)[:800])
    elif 'PRE_UNSAT' in states:
        res.update(verdict='pre_unsat', detail=msgs[0]['message'][:300])
    elif 'CANNOT_CONFIRM' in states:
        res.update(verdict='not_confirmed')
    elif states and all(s == 'CONFIRMED' for s in states):
        res.update(verdict='confirmed')
    else:
        res.update(verdict='error', detail='no message from CrossHair')
    return res


def _strip_which(call: str) -> str:
    return call


def replay_native(ob: Ob, call: str, scratch: str) -> Dict[str, Any]:
    spec = ob.spec(scratch)
    spec['call'] = call
    path = os.path.join(scratch, 'replay_%s.json' % re.sub(r'\W', '_', ob.id))
    with open(path, 'w') as f:
        json.dump(spec, f)
    return _run_worker(['--replay', path], timeout=300)


def reproduced(ob: Ob, rp: Dict[str, Any]) -> bool:
    """Does the native re-execution show the same failure of the obligation?"""
    if rp.get('outcome') == 'returned':
        want_true = (ob.post.strip() == '_')
        return rp['value'] != want_true
    if rp.get('outcome') == 'exception':
        if rp.get('exc') == 'OracleDisagreement':
            return False      # reference model and real oracle disagree: not a finding
        return not rp.get('allowed', False)
    return False


def run_one(ob: Ob, scratch: str) -> Dict[str, Any]:
    path = os.path.join(scratch, 'spec_%s.json' % re.sub(r'\W', '_', ob.id))
    with open(path, 'w') as f:
        json.dump(ob.spec(scratch), f)
    raw = _run_worker([path], timeout=ob.timeout * 2.0 + 90)
    res = _classify(ob, raw)
    if res['verdict'] == 'cex':
        if res.get('call') is None:
            res['replay'] = {'outcome': 'unparsable', 'detail': res.get('message')}
        else:
            res['replay'] = replay_native(ob, res['call'], scratch)
        res['reproduced'] = reproduced(ob, res['replay'])
    return res


def run_all(obs: List[Ob], log=None) -> List[Dict[str, Any]]:
    """Run obligations in parallel; longest budgets first."""
    scratch = tempfile.mkdtemp(prefix='verif_xh_')
    order = sorted(range(len(obs)), key=lambda i: -obs[i].timeout)
    results: List[Optional[Dict[str, Any]]] = [None] * len(obs)
    try:
        with cf.ThreadPoolExecutor(max_workers=jobs()) as ex:
            futs = {ex.submit(run_one, obs[i], scratch): i for i in order}
            for fu in cf.as_completed(futs):
                i = futs[fu]
                try:
                    results[i] = fu.result()
                except Exception as e:  # harness failure
                    results[i] = {'id': obs[i].id, 'verdict': 'error', 'detail': repr(e),
                                  'group': obs[i].group, 'bound': obs[i].bound,
                                  'expect': obs[i].expect, 'paths': 0, 'completed_paths': 0,
                                  'cpu_s': 0.0}
                if log:
                    r = results[i]
                    log('  [%s] %-40s %-13s paths=%-6s cpu=%ss %s' % (
                        obs[i].expect[:4], obs[i].id, r['verdict'], r.get('paths'),
                        r.get('cpu_s'), (r.get('call') or r.get('detail') or '')[:120]))
    finally:
        import shutil
        shutil.rmtree(scratch, ignore_errors=True)
    return results  # type: ignore
