"""Verdict protocol shared by all properties: known findings, VIOLATION lines,
replay files, evidence."""
from __future__ import annotations

import hashlib
import importlib
import inspect
import json
import os
import sys
import time
from typing import Any, Dict, List, Optional

from . import VERIF, REPO
from .xhair import Ob

EXIT_OK, EXIT_VIOLATION, EXIT_INCONCLUSIVE = 0, 1, 2
FINDINGS_FILE = os.path.join(VERIF, 'known_findings.json')


def log(*a):
    print(*a, flush=True)


def seed() -> int:
    try:
        return int(os.environ.get('VERIF_SEED', '0'))
    except ValueError:
        return 0


# --------------------------------------------------------------------------
# known findings

def load_findings(pid: str) -> List[Dict[str, Any]]:
    try:
        data = json.load(open(FINDINGS_FILE))
    except FileNotFoundError:
        return []
    return [f for f in data.get('findings', [])
            if f.get('property') == pid and f.get('status') == 'open']


def _bind(params: str, call: str) -> Optional[Dict[str, Any]]:
    from .xh_worker import _split_params
    names = [p.split(':')[0].strip() for p in _split_params(params)]
    try:
        args, kwargs = eval('(lambda *a, **k: (a, k))(' + call + ')', {'float': float})
    except Exception:
        return None
    d = dict(zip(names, args))
    d.update(kwargs)
    return d


def match_finding(findings, func: str, params: str, call: Optional[str],
                  env: Optional[Dict[str, Any]] = None, module: Optional[str] = None,
                  args: Optional[str] = None) -> Optional[Dict[str, Any]]:
    """A counterexample is a *known* finding only if the harness function is
    the one named in the entry AND the entry's witness predicate holds of the
    concrete arguments.  The predicate sees the obligation's parameters by
    name, `args` (the full argument tuple passed to the harness function) and
    `H` (the harness module, for witness helpers defined next to the harness)."""
    if call is None and env is None:
        return None
    if not findings:
        return None
    bound = env if env is not None else _bind(params, call)
    if bound is None:
        return None
    bound = dict(bound)
    if module:
        try:
            from . import shims  # noqa: F401
            bound['H'] = importlib.import_module(module)
        except Exception:
            pass
    if args:
        try:
            e = dict(vars(bound['H'])) if 'H' in bound else {}
            e.update(bound)
            bound['args'] = eval('(' + args + ',)', e)
        except Exception:
            pass
    elif call is not None:
        try:
            bound['args'] = eval('(' + call + ',)', {'float': float})
        except Exception:
            pass
    for f in findings:
        m = f.get('match', {})
        if func not in m.get('funcs', [m.get('func')]):
            continue
        try:
            if eval(m['predicate'], {'__builtins__': __builtins__}, dict(bound)):
                return f
        except Exception:
            continue
    return None


# --------------------------------------------------------------------------
# subjects: qualified names -> sha1 of the live source

def subject_hashes(names: List[str]) -> Dict[str, str]:
    from . import shims  # noqa: F401
    out = {}
    for qn in names:
        try:
            if qn.startswith('file:'):
                src = open(os.path.join(REPO, qn[5:]), 'rb').read()
                out[qn] = hashlib.sha1(src).hexdigest()
                continue
            parts = qn.split('.')
            obj = None
            for i in range(len(parts), 0, -1):
                try:
                    obj = importlib.import_module('.'.join(parts[:i]))
                    rest = parts[i:]
                    break
                except ImportError:
                    continue
            for r in rest:
                obj = inspect.getattr_static(obj, r) if inspect.isclass(obj) else getattr(obj, r)
            if isinstance(obj, (staticmethod, classmethod)):
                obj = obj.__func__
            src = inspect.getsource(obj)
            out[qn] = hashlib.sha1(src.encode()).hexdigest()
        except Exception as e:
            out[qn] = 'unresolved: %r' % (e,)
    return out


# --------------------------------------------------------------------------

def write_replay(pid: str, name: str, payload: Dict[str, Any]) -> str:
    d = os.path.join(VERIF, 'replays')
    os.makedirs(d, exist_ok=True)
    path = os.path.join(d, '%s_%s.json' % (pid, name))
    with open(path, 'w') as f:
        json.dump(payload, f, indent=1, default=repr)
    return path


def write_evidence(pid: str, ev: Dict[str, Any]) -> None:
    # runs against another checkout (seeded changes) must not overwrite the evidence of the tree under /repo
    d = os.environ.get('VERIF_EVIDENCE_DIR') or os.path.join(VERIF, 'evidence')
    os.makedirs(d, exist_ok=True)
    tmp = os.path.join(d, pid + '.json.tmp')
    with open(tmp, 'w') as f:
        json.dump(ev, f, indent=1, default=repr)
    os.replace(tmp, os.path.join(d, pid + '.json'))


class Verdicts:
    """Accumulates outcomes of obligations (from any engine) for one run."""

    def __init__(self, pid: str, tier: str):
        self.pid, self.tier = pid, tier
        self.findings = load_findings(pid)
        self.t0 = time.time()
        self.obligations = 0
        self.discharged = 0
        self.not_discharged: List[Dict[str, Any]] = []
        self.violations: List[Dict[str, Any]] = []
        self.known: Dict[str, Dict[str, Any]] = {}
        self.inconclusive: List[str] = []
        self.samples: List[Any] = []
        self.paths = 0
        self.completed = 0
        self.solver_s = 0.0
        self.replayed = 0
        self.twins_ok = 0
        self.tags: Dict[str, int] = {}
        self.subjects: List[str] = []
        self.groups: Dict[str, Dict[str, int]] = {}

    # -- E1 results --------------------------------------------------------
    def add_xhair(self, ob: Ob, r: Dict[str, Any]) -> None:
        self.paths += int(r.get('paths') or 0)
        self.completed += int(r.get('completed_paths') or 0)
        self.solver_s += float(r.get('cpu_s') or 0.0)
        for k, v in (r.get('tags') or {}).items():
            self.tags[k] = self.tags.get(k, 0) + v
        for s in r.get('subjects') or []:
            if s not in self.subjects:
                self.subjects.append(s)
        g = self.groups.setdefault(ob.group or ob.func, {'obligations': 0, 'discharged': 0, 'paths': 0})
        g['paths'] += int(r.get('paths') or 0)
        v = r['verdict']
        sample = {'obligation': ob.id, 'harness': ob.module.split('.')[-1] + '.' + ob.func,
                  'params': ob.params, 'pre': ob.pre, 'post': ob.post, 'verdict': v,
                  'paths': r.get('paths'), 'cpu_s': r.get('cpu_s')}
        if ob.expect == 'cex':
            # reachability twin: must come back refuted, and the refutation must replay
            if v == 'cex' and r.get('reproduced'):
                self.twins_ok += 1
                self.replayed += 1
                sample['witness'] = r.get('call')
            elif v in ('confirmed', 'pre_unsat'):
                self.inconclusive.append('reachability twin %s came back %s: harness is vacuous' % (ob.id, v))
            elif v == 'error':
                self.inconclusive.append('twin %s: worker error %s' % (ob.id, r.get('detail')))
            else:
                self.not_discharged.append({'obligation': ob.id, 'reason': 'twin ' + v})
            if len(self.samples) < 40:
                self.samples.append(sample)
            return
        self.obligations += 1
        g['obligations'] += 1
        if v == 'confirmed':
            self.discharged += 1
            g['discharged'] += 1
        elif v == 'cex':
            self.replayed += 1
            if not r.get('reproduced'):
                self.inconclusive.append('counterexample of %s did not reproduce natively: ob(%s) -> %s' % (
                    ob.id, r.get('call'), json.dumps(r.get('replay'), default=repr)[:400]))
            else:
                f = match_finding(self.findings, ob.func, ob.params, r.get('call'), module=ob.module, args=ob.args)
                if f is not None:
                    self.known[f['id']] = f
                    sample['known_finding'] = f['id']
                    if ob.finding == f['id']:
                        # the un-narrowed twin exists only to re-derive the finding
                        self.obligations -= 1
                        g['obligations'] -= 1
                else:
                    self.violations.append({'obligation': ob.id, 'harness': ob.module + '.' + ob.func,
                                            'params': ob.params, 'pre': ob.pre, 'call': r.get('call'),
                                            'message': r.get('message'), 'replay': r.get('replay'),
                                            'spec': ob.spec('')})
            sample['call'] = r.get('call')
        elif v == 'error':
            self.inconclusive.append('%s: worker error: %s %s' % (ob.id, r.get('detail'), (r.get('stderr') or '')[-600:]))
        else:
            if ob.finding:
                # re-derivation instance of a known finding that did not fire:
                # nothing to discharge (finding may have been fixed)
                self.obligations -= 1
                g['obligations'] -= 1
            else:
                self.not_discharged.append({'obligation': ob.id, 'reason': v, 'paths': r.get('paths')})
        if len(self.samples) < 40 or v != 'confirmed':
            self.samples.append(sample)

    # -- generic results (E2, oracle validation) ----------------------------
    def add_generic(self, oid: str, ok: Optional[bool], *, detail: Any = None, group: str = '',
                    solver_s: float = 0.0, violation: Optional[Dict[str, Any]] = None,
                    env: Optional[Dict[str, Any]] = None, func: str = '') -> None:
        """ok=True discharged, ok=None not discharged (unknown/timeout),
        ok=False a *replayed* violation described by `violation`."""
        self.obligations += 1
        self.solver_s += solver_s
        g = self.groups.setdefault(group or oid, {'obligations': 0, 'discharged': 0, 'paths': 0})
        g['obligations'] += 1
        sample = {'obligation': oid, 'verdict': {True: 'unsat/holds', None: 'unknown', False: 'violated'}[ok],
                  'detail': detail, 'solver_s': round(solver_s, 3)}
        if ok:
            self.discharged += 1
            g['discharged'] += 1
        elif ok is None:
            self.not_discharged.append({'obligation': oid, 'reason': str(detail)[:200]})
        else:
            self.replayed += 1
            f = match_finding(self.findings, func, '', None, env=env) if env is not None else None
            if f is not None:
                self.known[f['id']] = f
                sample['known_finding'] = f['id']
            else:
                v = dict(violation or {})
                v.setdefault('obligation', oid)
                self.violations.append(v)
        if len(self.samples) < 60 or not ok:
            self.samples.append(sample)

    # -- conclusion ---------------------------------------------------------
    def finish(self, *, level: str, explanation: str, bounds: Dict[str, Any],
               stubs: List[str], trusted_base: List[str], assumptions: List[str],
               subjects: Optional[List[str]] = None, outside: Optional[List[str]] = None,
               extra: Optional[Dict[str, Any]] = None, rule: str = '',
               engine: str = 'CrossHair 0.0.110 (z3) on the real Python code') -> int:
        wall = time.time() - self.t0
        subj = list(subjects or self.subjects)
        cov: Dict[str, Any] = {
            'explanation': explanation,
            'engine': engine,
            'functions_encoded': subject_hashes(subj),
            'bounds': bounds,
            'outside_the_claim': outside or [],
            'obligations': self.obligations,
            'discharged': self.discharged,
            'not_discharged': self.not_discharged,
            'per_group': self.groups,
            'paths': self.paths,
            'evaluations': max(self.paths, self.obligations),
            'distinct_nontrivial': self.completed if self.completed else self.discharged,
            'rule': rule or ('evaluations = solver-feasible execution paths explored by CrossHair over all '
                             'obligations (each path is a distinct class of inputs: a decision sequence is '
                             'never repeated); distinct_nontrivial = paths that passed the precondition, ran '
                             'the subject and reached the final comparison with the reference model'),
            'solver_time_s': round(self.solver_s, 1),
            'reachability_twins_refuted_and_replayed': self.twins_ok,
            'traces_validated_against_impl': self.replayed,
            'events': self.tags,
            'samples': self.samples[:80],
            'stubs': stubs,
            'trusted_base': trusted_base,
            'exhaustive': (self.discharged == self.obligations and not self.not_discharged
                           and not self.inconclusive and not self.violations),
            'known_findings_rederived': sorted(self.known),
            'inconclusive': self.inconclusive,
        }
        if level == 'model_checking':
            cov['states'] = max(1, self.completed)
            cov['transitions'] = max(1, self.tags.get('step', self.paths))
        if extra:
            cov.update(extra)
        ev = {'property_id': self.pid, 'tier': self.tier, 'seed': seed(), 'level': level,
              'coverage': cov, 'assumptions': assumptions, 'wall_s': round(wall, 1),
              'violations': len(self.violations)}
        write_evidence(self.pid, ev)
        for f in self.known.values():
            log('KNOWN-FINDING: property=%s %s %s' % (self.pid, f['id'], f['what']))
        log('%s %s: obligations=%d discharged=%d not_discharged=%d paths=%d cpu=%.0fs wall=%.0fs' % (
            self.pid, self.tier, self.obligations, self.discharged, len(self.not_discharged),
            self.paths, self.solver_s, wall))
        for nd in self.not_discharged[:20]:
            log('  not discharged:', nd)
        if self.violations:
            for i, v in enumerate(self.violations):
                path = write_replay(self.pid, 'v%d' % i, v)
                log('VIOLATION property=%s replay=%s' % (self.pid, path))
                log('  obligation %s: %s' % (v.get('obligation'), str(v.get('call') or v.get('detail'))[:300]))
            return EXIT_VIOLATION
        if self.inconclusive:
            for m in self.inconclusive:
                log('INCONCLUSIVE:', m)
            return EXIT_INCONCLUSIVE
        return EXIT_OK
