"""Name resolution of a generated SQL tree (edb.pgsql.ast) under PostgreSQL's
scoping rules - the oracle of property C13.

Modelled (PostgreSQL documentation, sections 7.2.1 "The FROM Clause", 7.8 "WITH
Queries", 4.2.11 / 9.23 sub-queries):
  * a FROM item is visible to the items that FOLLOW it in the same FROM list only
    if the later item is LATERAL (sub-selects) or a function call (implicitly
    lateral); join quals see both sides of their join;
  * target list, WHERE, GROUP BY, HAVING, ORDER BY, LIMIT/OFFSET, VALUES rows see
    every item of their own FROM list and every enclosing query level
    (correlated sub-queries);
  * a CTE is visible in the later CTEs of the same WITH list and in the body of
    the statement; CTE bodies see enclosing query levels but not the FROM list of
    the statement they belong to;
  * the operands of UNION / INTERSECT / EXCEPT are resolved independently;
  * INSERT / UPDATE / DELETE: the target relation (and FROM / USING items) are
    visible in SET, WHERE and RETURNING; an INSERT's source query does not see the
    target relation;
  * a reference alias.column to a sub-select or CTE must name one of its output
    columns (explicit ResTarget name, else the last component of a bare column
    reference, column aliases of the range alias override).  Columns of base
    tables are not checked (unknown to this module).
Anything the walker does not know makes the result 'unsupported' (not decided),
never 'ok'."""
from __future__ import annotations

from typing import Any, Dict, List, Optional, Set

from edb.pgsql import ast as pgast
from edb.common import ast as cast


class Unsupported(Exception):
    pass


class Scope:
    """One query level: visible range aliases -> set of column names (None = unknown)."""

    def __init__(self):
        self.rvars: Dict[str, Optional[Set[str]]] = {}

    def copy(self):
        s = Scope()
        s.rvars = dict(self.rvars)
        return s


class Resolver:
    def __init__(self):
        self.problems: List[str] = []
        self.params: Set[int] = set()
        self.columns_checked = 0
        self.refs = 0

    # -- outputs ---------------------------------------------------------------------
    def outputs(self, q) -> Optional[Set[str]]:
        if isinstance(q, pgast.SelectStmt) and q.op is not None:
            return self.outputs(q.larg)
        if isinstance(q, pgast.SelectStmt) and q.values:
            first = q.values[0]
            n = len(getattr(first, 'args', []) or [])
            return {'column%d' % (i + 1) for i in range(n)}
        tl = getattr(q, 'target_list', None)
        if tl is None:
            return None
        names: Set[str] = set()
        for rt in tl:
            if rt.name:
                names.add(rt.name)
            elif isinstance(rt.val, pgast.ColumnRef):
                last = rt.val.name[-1]
                if isinstance(last, pgast.Star):
                    return None          # star expansion: unknown here
                names.add(last)
            else:
                names.add('?column?')
        return names

    # -- queries ---------------------------------------------------------------------
    def query(self, q, outer: List[Scope], ctes: Dict[str, Optional[Set[str]]]):
        ctes = dict(ctes)
        for cte in (getattr(q, 'ctes', None) or []):
            if cte.recursive:
                ctes[cte.name] = set(cte.aliascolnames) if cte.aliascolnames else self.outputs(cte.query)
            self.query(cte.query, outer, ctes)
            cols = self.outputs(cte.query)
            if cte.aliascolnames:
                cols = set(cte.aliascolnames) | (cols or set()) if cols is None else set(cte.aliascolnames)
            ctes[cte.name] = cols
        if isinstance(q, pgast.SelectStmt):
            if q.op is not None:
                self.query(q.larg, outer, ctes)
                self.query(q.rarg, outer, ctes)
                out = self.outputs(q)
                sc = Scope()
                for e in (q.sort_clause or []):
                    self.expr(e, [sc] + outer, ctes, allow_bare=out)
                for e in (q.limit_offset, q.limit_count):
                    if e is not None:
                        self.expr(e, outer, ctes)
                return
            local = Scope()
            for item in q.from_clause:
                self.from_item(item, local, outer, ctes)
            scopes = [local] + outer
            out = self.outputs(q)
            if q.values:
                # VALUES (...): the code generator prints the rows only (the target list of such a node is
                # bookkeeping for the path machinery and is not emitted)
                for row in q.values:
                    self.expr(row, scopes, ctes)
                return
            for rt in q.target_list:
                self.expr(rt.val, scopes, ctes)
            for e in (q.where_clause, q.having_clause, q.limit_offset, q.limit_count):
                if e is not None:
                    self.expr(e, scopes, ctes)
            for lst in (q.group_clause, q.sort_clause, q.distinct_clause, q.values, q.window_clause):
                for e in (lst or []):
                    self.expr(e, scopes, ctes, allow_bare=out)
            return
        if isinstance(q, pgast.InsertStmt):
            if q.select_stmt is not None:
                self.query(q.select_stmt, outer, ctes)
            local = Scope()
            self.from_item(q.relation, local, outer, ctes)
            if q.on_conflict is not None:
                self.generic(q.on_conflict, [local] + outer, ctes)
            for rt in q.returning_list:
                self.expr(rt.val, [local] + outer, ctes)
            return
        if isinstance(q, pgast.UpdateStmt):
            local = Scope()
            self.from_item(q.relation, local, outer, ctes)
            for item in q.from_clause:
                self.from_item(item, local, outer, ctes)
            scopes = [local] + outer
            for t in q.targets:
                self.generic(t, scopes, ctes)
            if q.where_clause is not None:
                self.expr(q.where_clause, scopes, ctes)
            for rt in q.returning_list:
                self.expr(rt.val, scopes, ctes)
            return
        if isinstance(q, pgast.DeleteStmt):
            local = Scope()
            self.from_item(q.relation, local, outer, ctes)
            for item in q.using_clause:
                self.from_item(item, local, outer, ctes)
            scopes = [local] + outer
            if q.where_clause is not None:
                self.expr(q.where_clause, scopes, ctes)
            for rt in q.returning_list:
                self.expr(rt.val, scopes, ctes)
            return
        if isinstance(q, pgast.NullRelation):
            sc = [Scope()] + outer
            for rt in q.target_list:
                self.expr(rt.val, sc, ctes)
            if q.where_clause is not None:
                self.expr(q.where_clause, sc, ctes)
            return
        raise Unsupported('query node %s' % type(q).__name__)

    # -- FROM items --------------------------------------------------------------------
    def _alias_cols(self, alias, cols):
        if alias is not None and alias.colnames:
            if cols is None:
                return None
            return set(alias.colnames) | cols      # leading columns renamed; keep both (lenient)
        return cols

    def from_item(self, item, local: Scope, outer: List[Scope], ctes):
        if isinstance(item, pgast.RelRangeVar):
            rel = item.relation
            if isinstance(rel, pgast.CommonTableExpr):
                name = rel.name
                if name not in ctes:
                    self.problems.append(f'FROM refers to CTE {name!r} which is not in scope here')
                    cols = self.outputs(rel.query)
                else:
                    cols = ctes[name]
            else:
                name = rel.name
                if getattr(rel, 'schemaname', None) is None and name in ctes:
                    cols = ctes[name]
                elif getattr(rel, 'schemaname', None) is None and name is not None and not getattr(rel, 'is_temporary', False):
                    # an unqualified relation name that is not a CTE in scope
                    self.problems.append(f'FROM refers to relation {name!r}: neither schema-qualified nor a CTE in scope')
                    cols = None
                else:
                    cols = None
            alias = item.alias.aliasname or name
            local.rvars[alias] = self._alias_cols(item.alias, cols)
            return
        if isinstance(item, pgast.RangeSubselect):
            inner_outer = ([local.copy()] + outer) if item.lateral else outer
            self.query(item.subquery, inner_outer, ctes)
            local.rvars[item.alias.aliasname] = self._alias_cols(item.alias, self.outputs(item.subquery))
            return
        if isinstance(item, pgast.RangeFunction):
            sc = [local.copy()] + outer       # functions in FROM are implicitly lateral
            for f in item.functions:
                self.expr(f, sc, ctes)
            if item.alias and item.alias.aliasname:
                cols = set(item.alias.colnames) if item.alias.colnames else None
                local.rvars[item.alias.aliasname] = cols
            return
        if isinstance(item, pgast.JoinExpr):
            self.from_item(item.larg, local, outer, ctes)
            for j in item.joins:
                self.from_item(j.rarg, local, outer, ctes)
                if j.quals is not None:
                    self.expr(j.quals, [local] + outer, ctes)
                for c in (j.using_clause or []):
                    self.expr(c, [local] + outer, ctes)
            return
        raise Unsupported('FROM item %s' % type(item).__name__)

    # -- expressions --------------------------------------------------------------------
    def expr(self, e, scopes: List[Scope], ctes, allow_bare: Optional[Set[str]] = None):
        if e is None:
            return
        if isinstance(e, pgast.ColumnRef):
            self.colref(e, scopes, allow_bare)
            return
        if isinstance(e, pgast.ParamRef):
            self.params.add(e.number)
            return
        if isinstance(e, (pgast.SelectStmt, pgast.InsertStmt, pgast.UpdateStmt, pgast.DeleteStmt, pgast.NullRelation)):
            self.query(e, scopes, ctes)
            return
        if isinstance(e, pgast.SubLink):
            if e.test_expr is not None:
                self.expr(e.test_expr, scopes, ctes)
            self.expr(e.expr, scopes, ctes)
            return
        if isinstance(e, (pgast.BaseRangeVar,)):
            raise Unsupported('range var %s in expression position' % type(e).__name__)
        self.generic(e, scopes, ctes, allow_bare)

    def generic(self, node, scopes, ctes, allow_bare=None):
        if isinstance(node, (list, tuple)):
            for x in node:
                self.expr(x, scopes, ctes, allow_bare) if isinstance(x, cast.AST) else None
            return
        if not isinstance(node, cast.AST):
            return
        for fname, _f in cast.iter_fields(node, include_meta=False):
            v = getattr(node, fname, None)
            if isinstance(v, cast.AST):
                self.expr(v, scopes, ctes, allow_bare)
            elif isinstance(v, (list, tuple)):
                for x in v:
                    if isinstance(x, cast.AST):
                        self.expr(x, scopes, ctes, allow_bare)
                    elif isinstance(x, (list, tuple)):
                        self.generic(x, scopes, ctes, allow_bare)

    def colref(self, c: pgast.ColumnRef, scopes: List[Scope], allow_bare):
        self.refs += 1
        name = list(c.name)
        if len(name) == 1:
            col = name[0]
            if isinstance(col, pgast.Star):
                return
            if allow_bare is not None and col in allow_bare:
                return
            known_hit = False
            unknown = False
            for sc in scopes:
                for _alias, cols in sc.rvars.items():
                    if cols is None:
                        unknown = True
                    elif col in cols:
                        known_hit = True
            if not known_hit and not unknown:
                self.problems.append(f'column {col!r} does not resolve: no visible range variable has it')
            return
        if len(name) >= 3:
            return          # schema-qualified: not checked
        alias, col = name
        if isinstance(alias, pgast.Star):
            return
        for sc in scopes:
            if alias in sc.rvars:
                cols = sc.rvars[alias]
                if cols is not None and not isinstance(col, pgast.Star):
                    self.columns_checked += 1
                    if col not in cols:
                        self.problems.append(f'{alias}.{col}: range variable {alias!r} has no output column {col!r}')
                return
        self.problems.append(f'{alias}.{col}: range variable {alias!r} is not in scope at this point '
                             f'(visible: {sorted(a for s in scopes for a in s.rvars)[:12]})')


def check(tree) -> Dict[str, Any]:
    r = Resolver()
    try:
        r.query(tree, [], {})
    except Unsupported as e:
        return {'status': 'unsupported', 'detail': str(e), 'problems': r.problems}
    return {'status': 'ok' if not r.problems else 'violation', 'problems': r.problems, 'params': sorted(r.params),
            'column_refs': r.refs, 'columns_checked': r.columns_checked}
