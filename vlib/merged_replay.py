"""Replays a model of the merged C20 encoding on the real sort_ex:
python -m vlib.merged_replay '{"config": {...}, "model": {"hard_0_1": true, ...}}'"""
import json
import sys


def main():
    d = json.loads(sys.argv[1])
    from vlib import shims
    shims.install()
    from vlib.harness import C20_merged as M
    c = d['config']
    m = {k: bool(v) for k, v in d['model'].items()}
    kinds = tuple(c['kinds'])
    print('graph:', {i: {k: sorted(str(j) for j in list(range(c['N'])) + ['X'] if m.get(f'{k}_{i}_{j}')) for k in kinds}
                     for i in range(c['N'])})
    print('real sort_ex:', M.run_real(c['N'], m, kinds, c['dangling'], c['allow']))
    bad = M.oracle_violations_ext(c['N'], m, kinds, c['dangling'], c['allow'])
    for b in bad:
        print('violated:', b)
    print('reproduced' if bad else 'not reproduced')
    return 1 if bad else 0


if __name__ == '__main__':
    sys.exit(main())
