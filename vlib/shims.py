"""Stand-ins for the native modules that are absent from /repo in this sandbox
(Rust parser, Cython modules, turbo_uuid, graphql-core, `parsing`).  Importing
this module installs them, after which every pure-Python module the checks
analyse imports from /repo unchanged.  The stand-ins are never called by the
code under analysis except where stated in DESIGN.md section 7
(`turbo_uuid.UUID`, the keyword sets re-extracted from keywords.rs)."""
import importlib.abc
import importlib.machinery
import os
import re
import sys
import types
import uuid as _uuid

from . import REPO

if REPO not in sys.path:
    sys.path.insert(0, REPO)


def keyword_sets():
    src = open(os.path.join(REPO, 'edb/edgeql-parser/src/keywords.rs')).read()
    out = {}
    for name in ('UNRESERVED_KEYWORDS', 'PARTIAL_RESERVED_KEYWORDS',
                 'FUTURE_RESERVED_KEYWORDS', 'CURRENT_RESERVED_KEYWORDS'):
        m = re.search(name + r'[^=]*=\s*phf_set!\(([^)]*)\)', src, re.S)
        if not m:
            raise RuntimeError('keywords.rs: cannot find ' + name)
        out[name] = frozenset(re.findall(r'"([^"]+)"', m.group(1)))
    return out


def _install_parser_shim():
    m = types.ModuleType('edb._edgeql_parser')
    kw = keyword_sets()
    m.unreserved_keywords = kw['UNRESERVED_KEYWORDS']
    m.partial_reserved_keywords = kw['PARTIAL_RESERVED_KEYWORDS']
    m.future_reserved_keywords = kw['FUTURE_RESERVED_KEYWORDS']
    m.current_reserved_keywords = kw['CURRENT_RESERVED_KEYWORDS']

    class _E(Exception):
        pass
    m.SyntaxError = _E
    for n in ('ParserResult', 'Hasher', 'Entry', 'CSTNode', 'Production',
              'Terminal', 'SourcePoint', 'OpaqueToken'):
        setattr(m, n, type(n, (), {}))

    def _na(*a, **k):
        raise NotImplementedError('native parser not available in this sandbox')
    for n in ('normalize', 'parse', 'preload_spec', 'save_spec',
              'offset_of_line', 'tokenize', 'unpickle_token', 'unpack'):
        setattr(m, n, _na)
    sys.modules['edb._edgeql_parser'] = m


class _Any(types.ModuleType):
    def __getattr__(self, name):
        if name.startswith('__'):
            raise AttributeError(name)
        cls = type(name, (), {
            '__init__': lambda self, *a, **k: None,
            '__init_subclass__': classmethod(lambda cls, **kw: None),
        })
        setattr(self, name, cls)
        return cls


STUBS = [
    'parsing', 'edb.graphql', 'graphql', 'edb.common.turbo_uuid',
    'edb.server._rust_native', 'edb.server._rust_native._conn_pool',
    'edb.server._rust_native._pg_rust', 'edb.server._rust_native._jwt',
    'edb.server._rust_native._gel_http',
    'edb.pgsql.parser.parser', 'edb.server.pgcon.pgcon',
    'edb.server.compiler.rpc', 'edb.server.dbview.dbview',
    'edb.server.cache.stmt_cache', 'edb.protocol.protocol',
    'edb.graphql.extension', 'edb._graphql_rewrite', 'edb.server._http',
    'edb.server.protocol.binary', 'edb.server.protocol.execute',
    'edb.server.protocol.frontend', 'edb.server.protocol.protocol',
    'edb.server.protocol.args_ser', 'edb.server.protocol.auth_helpers',
    'edb.server.pgproto.pgproto', 'edb.server.pgproto',
]
_PKGS = ('edb.server._rust_native', 'edb.server.pgproto')


class UUID(_uuid.UUID):
    """edb.common.turbo_uuid.UUID stand-in (constructor as in the .pyi)."""

    def __init__(self, inp):
        if isinstance(inp, (bytes, bytearray)):
            _uuid.UUID.__init__(self, bytes=bytes(inp))
        else:
            _uuid.UUID.__init__(self, str(inp))

    def __reduce__(self):
        return (UUID, (self.bytes,))


UUID.__module__ = 'edb.common.turbo_uuid'
UUID.__qualname__ = 'UUID'


class _Finder(importlib.abc.MetaPathFinder, importlib.abc.Loader):
    def find_spec(self, name, path, target=None):
        if name in STUBS or name == 'graphql' or name.startswith('graphql.'):
            return importlib.machinery.ModuleSpec(
                name, self,
                is_package=(name in _PKGS or name.startswith('graphql')))
        return None

    def create_module(self, spec):
        m = _Any(spec.name)
        if spec.name == 'edb.common.turbo_uuid':
            m.UUID = UUID
        return m

    def exec_module(self, module):
        pass


_installed = False


def install():
    global _installed
    if _installed:
        return
    _installed = True
    _install_parser_shim()
    sys.meta_path.insert(0, _Finder())


install()
