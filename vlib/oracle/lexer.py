"""The real EdgeQL lexer (tokenizer.rs, validation.rs, helpers/*.rs,
keywords.rs - unmodified, #[path]-included from /repo) compiled with plain
rustc against tiny shim crates, used as an executable oracle: replay of C18
counterexamples, validation of the Python reference model, and the source of
the is_alphabetic / is_alphanumeric tables."""
import atexit
import os
import shutil
import subprocess
import tempfile
from typing import List, Optional, Tuple

from .. import REPO

HERE = os.path.dirname(os.path.abspath(__file__))
RS = os.path.join(HERE, 'rs')
ENV_BIN = 'VERIF_LEXER_BIN'
SOURCES = ['edb/edgeql-parser/src/keywords.rs', 'edb/edgeql-parser/src/tokenizer.rs',
           'edb/edgeql-parser/src/validation.rs', 'edb/edgeql-parser/src/helpers/mod.rs',
           'edb/edgeql-parser/src/helpers/strings.rs', 'edb/edgeql-parser/src/helpers/bytes.rs']


class BuildError(Exception):
    pass


def build(outdir: Optional[str] = None) -> str:
    """Compile the lexer from /repo's current .rs files; returns the binary."""
    if outdir is None:
        outdir = tempfile.mkdtemp(prefix='verif_lexer_')
        atexit.register(shutil.rmtree, outdir, ignore_errors=True)
    for f in os.listdir(RS):
        if f.endswith('.rs'):
            shutil.copy(os.path.join(RS, f), outdir)
    src = open(os.path.join(RS, 'main.rs.in')).read().replace('@REPO@', REPO)
    with open(os.path.join(outdir, 'main.rs'), 'w') as f:
        f.write(src)
    env = dict(os.environ, CARGO_NET_OFFLINE='true')
    for crate in ('phf', 'memchr', 'bigdecimal', 'unicode_width'):
        r = subprocess.run(['rustc', '--edition', '2021', '--crate-type', 'rlib', '--crate-name', crate,
                            f'shim_{crate}.rs', '-o', f'lib{crate}.rlib'], cwd=outdir, env=env,
                           stdout=subprocess.PIPE, stderr=subprocess.STDOUT, text=True)
        if r.returncode != 0:
            raise BuildError('shim %s: %s' % (crate, r.stdout[-2000:]))
    cmd = ['rustc', '--edition', '2021', '-O', '-A', 'warnings', 'main.rs', '-o', 'lexer']
    for crate in ('phf', 'memchr', 'bigdecimal', 'unicode_width'):
        cmd += ['--extern', f'{crate}=lib{crate}.rlib']
    r = subprocess.run(cmd, cwd=outdir, env=env, stdout=subprocess.PIPE, stderr=subprocess.STDOUT, text=True)
    if r.returncode != 0:
        raise BuildError(r.stdout[-4000:])
    path = os.path.join(outdir, 'lexer')
    os.environ[ENV_BIN] = path
    return path


Token = Tuple[str, str, object]   # kind, text, value (str | bytes | None)


class Lexer:
    def __init__(self, binary: Optional[str] = None):
        self.binary = binary or os.environ.get(ENV_BIN) or build()
        self.p = subprocess.Popen([self.binary], stdin=subprocess.PIPE, stdout=subprocess.PIPE)

    def close(self):
        try:
            self.p.stdin.close()
            self.p.wait(timeout=5)
        except Exception:
            self.p.kill()

    def _ask(self, line: str) -> str:
        self.p.stdin.write(line.encode() + b'\n')
        self.p.stdin.flush()
        return self.p.stdout.readline().decode().rstrip('\n')

    def lex(self, text: str):
        """-> ('ok', [Token...]) | ('err', message, [tokens before]) | ('badutf8',)"""
        try:
            raw = text.encode('utf-8')
        except UnicodeEncodeError:
            return ('badutf8',)
        if b'\n' in raw.hex().encode():
            raise AssertionError
        out = self._ask(raw.hex())
        if out == 'BADUTF8':
            return ('badutf8',)
        toks: List[Token] = []
        for part in out.split(' '):
            if not part:
                continue
            f = part.split('|')
            if f[0] == 'ERR':
                return ('err', bytes.fromhex(f[1]).decode(), toks)
            kind, txt, val = f
            txt = bytes.fromhex(txt).decode()
            tag, payload = val.split(':', 1)
            if tag == 'S':
                v = bytes.fromhex(payload).decode()
            elif tag == 'B':
                v = bytes.fromhex(payload)
            elif tag == 'O':
                v = ('other', bytes.fromhex(payload).decode())
            else:
                v = None
            toks.append((kind, txt, v))
        return ('ok', toks)

    def single(self, text: str):
        """(kind, value) if `text` is exactly one token (then EOI), else None."""
        r = self.lex(text)
        if r[0] != 'ok' or len(r[1]) != 1:
            return None
        k, _t, v = r[1][0]
        return (k, v)

    def tables(self):
        self.p.stdin.write(b'T\n')
        self.p.stdin.flush()
        out = {}
        for _ in range(3):
            name, _, rng = self.p.stdout.readline().decode().strip().partition(' ')
            out[name] = [tuple(int(x) for x in r.split('-')) for r in rng.split(',') if r]
        return out

    def quote_name(self, text: str):
        a, b = self._ask('Q ' + text.encode().hex()).split(' ')
        return bytes.fromhex(a).decode(), bytes.fromhex(b).decode()


_shared: Optional[Lexer] = None


def shared() -> Lexer:
    global _shared
    if _shared is None:
        _shared = Lexer()
        atexit.register(_shared.close)
    return _shared
