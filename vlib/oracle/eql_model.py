"""Reference model of the EdgeQL lexer, restricted to the question the C18
obligations ask: "is `text` exactly one token, and if so of which kind and
value?".  Transcribed from edb/edgeql-parser/src/{tokenizer,validation}.rs and
helpers/{strings,bytes}.rs; written as plain character loops so that CrossHair
can execute it on symbolic strings.  NOT trusted: validated on every run
against the real lexer compiled from /repo (props/C18.py: validate_model).

Character classes (char::is_alphabetic / is_alphanumeric / is_whitespace) and
the keyword sets come from the real sources at run time (tables.py)."""
from typing import Optional, Tuple

from . import tables

MAX_KEYWORD_LENGTH = 16


def prohibited(c: str) -> bool:
    o = ord(c)
    if o == 0:
        return True
    if 0x202A <= o <= 0x202E:
        return True
    return 0x2066 <= o <= 0x2069


def _is_digit(c: str) -> bool:
    return '0' <= c <= '9'


def _hexval(c: str) -> int:
    if '0' <= c <= '9':
        return ord(c) - 48
    if 'a' <= c <= 'f':
        return ord(c) - 87
    if 'A' <= c <= 'F':
        return ord(c) - 55
    return -1


def _from_str_radix16(s) -> int:
    """Rust uN::from_str_radix(s, 16) for non-empty s; -1 on error.  A single
    leading '+' is accepted by Rust (not a lone '+')."""
    if len(s) == 0:
        return -1
    i = 0
    if s[0] == '+':
        if len(s) == 1:
            return -1
        i = 1
    v = 0
    while i < len(s):
        h = _hexval(s[i])
        if h < 0:
            return -1
        v = v * 16 + h
        i += 1
    return v


def _take_ascii(s, i: int, k: int):
    """`chars.as_str().get(0..k)` followed by a parse that only succeeds on
    ASCII text: the next k characters if they exist and are all ASCII."""
    if i + k > len(s):
        return None
    part = s[i:i + k]
    for ch in part:
        if ord(ch) > 0x7f:
            return None
    return part


def unquote_string_inner(s) -> Optional[str]:
    """helpers/strings.rs _unquote_string; None on error."""
    out = []
    i = 0
    n = len(s)
    while i < n:
        c = s[i]
        i += 1
        if c != '\\':
            out.append(c)
            continue
        if i >= n:
            return None
        c = s[i]
        i += 1
        if c == '"' or c == '\\' or c == '/' or c == "'":
            out.append(c)
        elif c == 'b':
            out.append('\x08')
        elif c == 'f':
            out.append('\x0c')
        elif c == 'n':
            out.append('\n')
        elif c == 'r':
            out.append('\r')
        elif c == 't':
            out.append('\t')
        elif c == 'x':
            h = _take_ascii(s, i, 2)
            if h is None:
                return None
            code = _from_str_radix16(h)
            if code < 0 or code > 0x7f or code == 0:
                return None
            out.append(chr(code))
            i += 2
        elif c == 'u' or c == 'U':
            k = 4 if c == 'u' else 8
            h = _take_ascii(s, i, k)
            if h is None:
                return None
            code = _from_str_radix16(h)
            if code <= 0 or code > 0x10FFFF or 0xD800 <= code <= 0xDFFF:
                return None
            out.append(chr(code))
            i += k
        elif c == '\r' or c == '\n':
            while i < n and tables.WHITESPACE.has(s[i]):
                i += 1
        else:
            return None
    return ''.join(out)


def unquote_bytes_inner(s) -> Optional[bytes]:
    """helpers/bytes.rs unquote_bytes_inner over an all-ASCII body."""
    out = []
    i = 0
    n = len(s)
    while i < n:
        c = s[i]
        i += 1
        if c != '\\':
            out.append(ord(c))
            continue
        if i >= n:
            return None   # "slash cant be at the end" (panic in Rust)
        c = s[i]
        i += 1
        if c == '"' or c == '\\' or c == '/' or c == "'":
            out.append(ord(c))
        elif c == 'b':
            out.append(8)
        elif c == 'f':
            out.append(12)
        elif c == 'n':
            out.append(10)
        elif c == 'r':
            out.append(13)
        elif c == 't':
            out.append(9)
        elif c == 'x':
            h = _take_ascii(s, i, 2)
            if h is None:
                return None
            code = _from_str_radix16(h)
            if code < 0 or code > 0xff:
                return None
            out.append(code)
            i += 2
        elif c == '\r' or c == '\n':
            while i < n and (s[i] == ' ' or s[i] == '\t' or s[i] == '\n' or s[i] == '\r' or s[i] == '\x0c'):
                i += 1
        else:
            return None
    return bytes(out)


def scan_string(text, q: int, raw: bool, binary: bool) -> int:
    """tokenizer.rs parse_string: index just after the closing quote, or -1
    (error, or a string-interpolation start)."""
    n = len(text)
    quote = text[q]
    i = q + 1
    while i < n:
        c = text[i]
        if c == '\\' and not raw:
            if i + 1 >= n:
                return -1
            if not binary and text[i + 1] == '(':
                return -1
            i += 2
            continue
        if binary:
            if ord(c) > 0x7f:
                return -1
            if c == quote:
                return i + 1
        else:
            if c == quote:
                return i + 1
            if prohibited(c):
                return -1
        i += 1
    return -1


def keyword_kind(ch) -> Optional[str]:
    """'KeywordR' (reserved) / 'KeywordU' if the char list is a keyword
    (ASCII case-insensitively), else None."""
    n = len(ch)
    if n > MAX_KEYWORD_LENGTH:   # byte length in Rust; keywords are ASCII
        return None
    cands = tables.keywords_by_len().get(n)
    if not cands:
        return None
    low = []
    for c in ch:
        if ord(c) > 0x7f:
            return None
        if 'A' <= c <= 'Z':
            low.append(chr(ord(c) + 32))
        else:
            low.append(c)
    for kw, reserved in cands:
        k = 0
        while k < n and low[k] == kw[k]:
            k += 1
        if k == n:
            return 'KeywordR' if reserved else 'KeywordU'
    return None


def _scan_backtick(text, start: int) -> int:
    """Index just after the closing backtick of a back-quoted name that opens
    at `start`; -1 on error."""
    n = len(text)
    i = start + 1
    while i < n:
        c = text[i]
        if c == '`':
            if i + 1 < n and text[i + 1] == '`':
                i += 2
                continue
            return i + 1
        if prohibited(c):
            return -1
        i += 1
    return -1


def _unbacktick(ch, a: int, b: int) -> str:
    """ch[a:b] with doubled back-ticks undone (left to right)."""
    out = []
    i = a
    while i < b:
        if ch[i] == '`' and i + 1 < b and ch[i + 1] == '`':
            out.append('`')
            i += 2
        else:
            out.append(ch[i])
            i += 1
    return ''.join(out)


Token = Tuple[str, object]


def _is_ws(c: str) -> bool:
    return c == ' ' or c == '\n' or c == '\t' or c == '\r' or c == '\ufeff'


def _has_dcolon(ch, a: int, b: int) -> bool:
    """'::' occurs in ch[a:b]"""
    i = a
    while i + 1 < b:
        if ch[i] == ':' and ch[i + 1] == ':':
            return True
        i += 1
    return False


def _find(ch, needle, start: int) -> int:
    """Index of the first occurrence of the char list `needle` in ch at or
    after `start`; -1 if none."""
    n = len(ch)
    m = len(needle)
    i = start
    while i + m <= n:
        k = 0
        while k < m and ch[i + k] == needle[k]:
            k += 1
        if k == m:
            return i
        i += 1
    return -1


def lex_one(text: str) -> Optional[Token]:
    """(kind, value) if `text` is exactly one token followed by end of input.
    kind in Str, BinStr, Ident, KeywordR, KeywordU, Parameter.  Anything the
    model does not cover (whitespace, comments, operators, numbers) -> None.

    Works on a list of characters with concrete indices: under symbolic
    execution every step is then a comparison of single characters."""
    ch = list(text)
    # skip_whitespace(): BOM, CR, TAB, LF and SPACE between tokens (comments,
    # which start with '#', are outside this model)
    a = 0
    while a < len(ch) and _is_ws(ch[a]):
        a += 1
    b = len(ch)
    while b > a and _is_ws(ch[b - 1]):
        b -= 1
    if a > 0 or b < len(ch):
        ch = ch[a:b]
    n = len(ch)
    if n == 0:
        return None
    c = ch[0]
    if c == "'" or c == '"':
        end = scan_string(ch, 0, False, False)
        if end != n:
            return None
        v = unquote_string_inner(ch[1:n - 1])
        if v is None:
            return None
        return ('Str', v)
    if c == '`':
        end = _scan_backtick(ch, 0)
        if end != n:
            return None
        if n == 2:
            return None
        if ch[1] == '@' or ch[1] == '$':
            return None
        if _has_dcolon(ch, 0, n):
            return None
        if n >= 5 and ch[1] == '_' and ch[2] == '_' and ch[n - 2] == '_' and ch[n - 3] == '_':
            return None
        if n == 4 and ch[1] == '_' and ch[2] == '_':
            return None     # `__`: "`__" and "__`" overlap
        return ('Ident', _unbacktick(ch, 1, n - 1))
    if c == '$':
        return _lex_dollar(ch)
    if c == '_' or tables.ALPHABETIC.has(c):
        i = 1
        while i < n:
            x = ch[i]
            if x == '"' or x == "'":
                if i == 1 and ch[0] == 'r':
                    raw, binary = True, False
                elif i == 1 and ch[0] == 'b':
                    raw, binary = False, True
                elif i == 2 and ((ch[0] == 'r' and ch[1] == 'b') or (ch[0] == 'b' and ch[1] == 'r')):
                    raw, binary = True, True
                else:
                    return None
                end = scan_string(ch, i, raw, binary)
                if end != n:
                    return None
                body = ch[i + 1:n - 1]
                if binary:
                    if raw:
                        return ('BinStr', bytes([ord(x) for x in body]))
                    b = unquote_bytes_inner(body)
                    if b is None:
                        return None
                    return ('BinStr', b)
                return ('Str', ''.join(body))
            if x == '`':
                return None
            if x == '_' or tables.ALPHANUMERIC.has(x):
                i += 1
                continue
            return None      # another token (or an error) follows
        val = ''.join(ch)
        kk = keyword_kind(ch)
        if kk is not None:
            return (kk, val)
        if n >= 4 and ch[0] == '_' and ch[1] == '_' and ch[n - 1] == '_' and ch[n - 2] == '_':
            return None
        if (n == 2 or n == 3) and ch[0] == '_' and ch[1] == '_' and ch[n - 1] == '_':
            return None      # "__" / "___": prefix and suffix overlap
        return ('Ident', val)
    return None


def _lex_dollar(ch) -> Optional[Token]:
    n = len(ch)
    if n < 2:
        return None
    d = ch[1]
    has_letter = False
    if d == '$':
        end = _find(ch, ['$', '$'], 2)
        if end < 0:
            return None
        if end + 2 != n:
            return None
        body = ch[2:end]
        for x in body:
            if prohibited(x):
                return None
        return ('Str', ''.join(body))
    if d == '`':
        end = _scan_backtick(ch, 1)
        if end != n:
            return None
        if n == 3:
            return None
        if ch[2] == '@':
            return None
        if _has_dcolon(ch, 0, n):
            return None
        if n >= 6 and ch[2] == '_' and ch[3] == '_' and ch[n - 2] == '_' and ch[n - 3] == '_':
            return None
        if n == 5 and ch[2] == '_' and ch[3] == '_':
            return None
        return ('Parameter', _unbacktick(ch, 2, n - 1))
    if _is_digit(d):
        pass
    elif d == '_' or tables.ALPHABETIC.has(d):
        has_letter = True
    else:
        return None
    i = 2
    while i < n:
        x = ch[i]
        if x == '$':
            msize = i + 1
            marker = ch[:msize]
            if _is_digit(marker[1]):
                return None
            for mc in marker:
                if ord(mc) > 0x7f:
                    return None
            end = _find(ch, marker, msize)
            if end < 0:
                return None
            if end + msize != n:
                return None
            body = ch[msize:end]
            for bc in body:
                if prohibited(bc):
                    return None
            return ('Str', ''.join(body))
        if _is_digit(x):
            i += 1
            continue
        if x == '_' or tables.ALPHABETIC.has(x):
            has_letter = True
            i += 1
            continue
        return None          # token ends here, something else follows
    if has_letter and _is_digit(ch[1]):
        return None
    return ('Parameter', ''.join(ch[1:]))


# --------------------------------------------------------------------------
# Domains: "every string that a quoted form can express" - decided by the
# lexer rules themselves on a canonical rendering.

def canon_string(s: str) -> str:
    """Canonical escaped-string rendering: every char as \\uXXXX / \\UXXXXXXXX."""
    out = ["'"]
    for c in s:
        o = ord(c)
        if o <= 0xFFFF:
            out.append('\\u%04x' % o)
        else:
            out.append('\\U%08x' % o)
    out.append("'")
    return ''.join(out)


def str_expressible(s: str) -> bool:
    """Escaped-string form: everything except NUL and surrogates."""
    for c in s:
        o = ord(c)
        if o == 0 or 0xD800 <= o <= 0xDFFF:
            return False
    return True


def raw_expressible(s: str) -> bool:
    """Dollar-quoted form ($marker$...$marker$ for *some* marker): no
    prohibited characters (a marker that does not occur always exists)."""
    for c in s:
        o = ord(c)
        if prohibited(c) or 0xD800 <= o <= 0xDFFF:
            return False
    return True


def backtick_expressible(s: str) -> bool:
    """`...` form with doubled back-ticks."""
    if len(s) == 0:
        return False
    if s[0] == '@' or s[0] == '$':
        return False
    if '::' in s:
        return False
    if s.startswith('__') and s.endswith('__'):
        return False
    for c in s:
        o = ord(c)
        if prohibited(c) or 0xD800 <= o <= 0xDFFF:
            return False
    return True
