pub mod memmem {
    pub fn find(hay: &[u8], needle: &[u8]) -> Option<usize> {
        if needle.is_empty() { return Some(0); }
        if hay.len() < needle.len() { return None; }
        (0..=hay.len()-needle.len()).find(|&i| &hay[i..i+needle.len()] == needle)
    }
}
