#[derive(Debug, Clone, Copy, Default, PartialEq)]
pub struct Span { pub start: u64, pub end: u64 }
#[derive(Debug, PartialOrd, Ord, PartialEq, Eq, Clone, Copy, Default, Hash)]
pub struct Pos { pub line: usize, pub column: usize, pub offset: u64 }
