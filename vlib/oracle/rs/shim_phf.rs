pub struct Set<T: 'static> { pub items: &'static [T] }
impl Set<&'static str> {
    pub fn contains(&self, s: &str) -> bool { self.items.iter().any(|x| *x == s) }
    pub fn get_key(&self, s: &str) -> Option<&&'static str> { self.items.iter().find(|x| **x == s) }
    pub fn iter(&self) -> std::slice::Iter<'_, &'static str> { self.items.iter() }
}
#[macro_export]
macro_rules! phf_set {
    ($($x:expr),* $(,)?) => { $crate::Set { items: &[$($x),*] } };
}
