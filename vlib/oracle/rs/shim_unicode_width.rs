pub trait UnicodeWidthStr { fn width(&self) -> usize; }
impl UnicodeWidthStr for str { fn width(&self) -> usize { self.chars().count() } }
