pub mod num_bigint {
    #[derive(Debug, Clone, PartialEq)]
    pub struct BigInt(pub String);
    impl BigInt { pub fn to_str_radix(&self, _r: u32) -> String { self.0.clone() } }
    pub trait ToBigInt { fn to_bigint(&self) -> Option<BigInt>; }
}
#[derive(Debug, Clone, PartialEq)]
pub struct BigDecimal(pub String);
impl std::str::FromStr for BigDecimal {
    type Err = String;
    fn from_str(s: &str) -> Result<Self, String> { Ok(BigDecimal(s.to_string())) }
}
impl num_bigint::ToBigInt for BigDecimal {
    fn to_bigint(&self) -> Option<num_bigint::BigInt> { Some(num_bigint::BigInt(self.0.clone())) }
}
