"""Run-time tables taken from the real sources: Rust character classes (from
the compiled lexer binary) and EdgeQL keyword sets (from keywords.rs)."""
import json
import os
from typing import Dict, List, Tuple

from ..symchars import Mask


class _Lazy:
    def __init__(self, name):
        self.name = name
        self._m = None

    def _mask(self) -> Mask:
        if self._m is None:
            self._m = Mask('rust_' + self.name, _tables()[self.name])
        return self._m

    def has(self, ch) -> bool:
        return self._mask().has(ch)

    def covers(self, cp: int) -> bool:
        return self._mask().covers(cp)


_T = None


def _tables():
    global _T
    if _T is None:
        cache = os.environ.get('VERIF_LEXER_TABLES')
        if cache and os.path.exists(cache):
            _T = {k: [tuple(x) for x in v] for k, v in json.load(open(cache)).items()}
        else:
            from . import lexer
            _T = lexer.shared().tables()
    return _T


def dump(path: str) -> None:
    with open(path, 'w') as f:
        json.dump(_tables(), f)
    os.environ['VERIF_LEXER_TABLES'] = path


def preload() -> None:
    """Load every table now (harness modules call this at import, i.e. outside
    CrossHair's tracing)."""
    _tables()
    from .. import symchars
    for m in (ALPHABETIC, ALPHANUMERIC, WHITESPACE):
        if symchars._HAVE_CH:
            m._mask().charmask()
        else:
            m._mask()
    keywords_by_len()


ALPHABETIC = _Lazy('alphabetic')
ALPHANUMERIC = _Lazy('alphanumeric')
WHITESPACE = _Lazy('whitespace')

_KW = None


def keywords_by_len() -> Dict[int, List[Tuple[str, bool]]]:
    """length -> [(keyword, is_reserved)] over all single-word keywords."""
    global _KW
    if _KW is None:
        from .. import shims
        ks = shims.keyword_sets()
        out: Dict[int, List[Tuple[str, bool]]] = {}
        res = ks['FUTURE_RESERVED_KEYWORDS'] | ks['CURRENT_RESERVED_KEYWORDS']
        allk = res | ks['UNRESERVED_KEYWORDS'] | ks['PARTIAL_RESERVED_KEYWORDS']
        for k in sorted(allk):
            out.setdefault(len(k), []).append((k, k in res))
        _KW = out
    return _KW


preload()
