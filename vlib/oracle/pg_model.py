"""PostgreSQL lexical rules (scan.l, standard_conforming_strings = on, a
multibyte server encoding) for the three forms the C18 obligations need.
PostgreSQL itself is not available in the sandbox, so this model is TRUSTED
(listed under trusted_base).  Sources: PostgreSQL documentation 4.1.1
(identifiers and key words), 4.1.2.1 (string constants), Appendix C (key
words, PostgreSQL 17 column)."""
from typing import List, Optional, Tuple

# Appendix C: "reserved" and "reserved (can be function or type)" - the two
# classes that cannot be used as a bare column / table name.
RESERVED = frozenset("""
all analyse analyze and any array as asc asymmetric both case cast check
collate column constraint create current_catalog current_date current_role
current_time current_timestamp current_user default deferrable desc distinct
do else end except false fetch for foreign from grant group having in
initially intersect into lateral leading limit localtime localtimestamp not
null offset on only or order placing primary references returning select
session_user some symmetric system_user table then to trailing true union
unique user using variadic when where window with
""".split())

TYPE_FUNC_NAME = frozenset("""
authorization binary collation concurrently cross current_schema freeze full
ilike inner is isnull join left like natural notnull outer overlaps right
similar tablesample verbose
""".split())

_BY_LEN = {}
for _k in sorted(RESERVED | TYPE_FUNC_NAME):
    _BY_LEN.setdefault(len(_k), []).append(_k)


def is_reserved_word(low: str) -> bool:
    """`low` is already ASCII-lower-cased."""
    cands = _BY_LEN.get(len(low))
    if not cands:
        return False
    for k in cands:
        if low == k:
            return True
    return False


def valid_text(s: str) -> bool:
    """What can be sent to PostgreSQL at all: no NUL, valid UTF-8."""
    for c in s:
        o = ord(c)
        if o == 0 or 0xD800 <= o <= 0xDFFF:
            return False
    return True


def lex_string_constant(text: str) -> Optional[str]:
    """'...' with '' for a quote; backslash is an ordinary character.  The
    whole of `text` must be the constant."""
    n = len(text)
    if n < 2 or text[0] != "'":
        return None
    out = []
    i = 1
    while i < n:
        c = text[i]
        if c == "'":
            if i + 1 < n and text[i + 1] == "'":
                out.append("'")
                i += 2
                continue
            if i + 1 == n:
                return ''.join(out)
            return None          # constant ended early, something follows
        if ord(c) == 0:
            return None
        out.append(c)
        i += 1
    return None                  # unterminated


def _ident_start(c: str) -> bool:
    return ('a' <= c <= 'z') or ('A' <= c <= 'Z') or c == '_' or ord(c) >= 0x80


def _ident_cont(c: str) -> bool:
    return _ident_start(c) or ('0' <= c <= '9') or c == '$'


def _ascii_lower(s: str) -> str:
    out = []
    for c in s:
        if 'A' <= c <= 'Z':
            out.append(chr(ord(c) + 32))
        else:
            out.append(c)
    return ''.join(out)


def lex_identifier(text: str) -> Optional[str]:
    """Value of the single identifier `text` denotes, or None if it is not
    exactly one identifier (quoted or bare; a bare reserved word is not an
    identifier).  Identifiers longer than 63 bytes are outside the model."""
    n = len(text)
    if n == 0:
        return None
    if text[0] == '"':
        out = []
        i = 1
        while i < n:
            c = text[i]
            if c == '"':
                if i + 1 < n and text[i + 1] == '"':
                    out.append('"')
                    i += 2
                    continue
                if i + 1 == n:
                    if not out:
                        return None     # zero-length delimited identifier
                    return ''.join(out)
                return None
            if ord(c) == 0:
                return None
            out.append(c)
            i += 1
        return None
    if not _ident_start(text[0]):
        return None
    i = 1
    while i < n:
        if not _ident_cont(text[i]):
            return None
        i += 1
    low = _ascii_lower(text)
    if is_reserved_word(low):
        return None
    return low


def lex_qualified(text: str, parts: int) -> Optional[List[str]]:
    """ident '.' ident ['.' ident]: split at dots that are outside double
    quotes; every piece must be one identifier."""
    pieces = []
    cur = []
    inq = False
    for c in text:
        if c == '"':
            inq = not inq
            cur.append(c)
        elif c == '.' and not inq:
            pieces.append(''.join(cur))
            cur = []
        else:
            cur.append(c)
    pieces.append(''.join(cur))
    if len(pieces) != parts:
        return None
    vals = []
    for p in pieces:
        v = lex_identifier(p)
        if v is None:
            return None
        vals.append(v)
    return vals
