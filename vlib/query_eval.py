"""A reference evaluator for the query family of vlib/harness/Q_family.py over
small explicit database instances of the Person / Admin / Post schema
(vlib/query_kit.user_schema).  Values: str, int, bool, Obj, tuples.
Results are multisets (python lists; order is irrelevant).

Only the constructs of the family are implemented; semantics follow the EdgeQL
reference: object-valued paths are sets (deduplicated), property paths map
element-wise, operators with non-SET-OF parameters apply to the cartesian
product of their arguments, SET OF / OPTIONAL parameters take the whole set,
FILTER keeps an element when the predicate yields true for it, FOR
concatenates the body over the elements of the iterator."""
from __future__ import annotations

import itertools
from typing import Any, Dict, List


class Obj:
    __slots__ = ('id', 'type')

    def __init__(self, id_, type_):
        self.id, self.type = id_, type_

    def __repr__(self):
        return f'{self.type}#{self.id}'

    def __eq__(self, o):
        return isinstance(o, Obj) and o.id == self.id

    def __hash__(self):
        return hash(self.id)


SUBTYPES = {'Person': ('Person', 'Admin', 'Chief'), 'Admin': ('Admin', 'Chief'), 'Chief': ('Chief',), 'Post': ('Post',)}


class DB:
    def __init__(self):
        self.objects: List[Obj] = []
        self.data: Dict[int, Dict[str, Any]] = {}

    def add(self, type_, **vals):
        o = Obj(len(self.objects) + 1, type_)
        self.objects.append(o)
        self.data[o.id] = vals
        return o

    def of_type(self, t):
        return [o for o in self.objects if o.type in SUBTYPES[t]]

    def get(self, o, ptr):
        v = self.data[o.id].get(ptr)
        if v is None:
            return []
        if isinstance(v, list):
            return list(v)
        return [v]

    def describe(self):
        return {repr(o): {k: (repr(v) if not isinstance(v, list) else [repr(x) for x in v]) for k, v in self.data[o.id].items()}
                for o in self.objects}


LINKS = {'best', 'friends', 'author', 'likes'}


def _dedup(vals):
    out = []
    for v in vals:
        if v not in out:
            out.append(v)
    return out


class Unsupported(Exception):
    pass


def ev(t, db: DB, env: Dict[str, Any]) -> List[Any]:
    k = t[0]
    if k == 'type':
        return db.of_type(t[1])
    if k == 'var':
        return list(env['vars'][t[1]])
    if k == 'path':
        src = ev(t[1], db, env)
        out = []
        for o in (_dedup(src) if t[2] in LINKS else src):
            out.extend(db.get(o, t[2]))
        return _dedup(out) if t[2] in LINKS else out
    if k == 'spath':
        return ev(('path', ('subject',), t[1]), db, env)
    if k == 'subject':
        return [env['subject']]
    if k == 'isa':
        return [o for o in ev(t[1], db, env) if o.type in SUBTYPES[t[2]]]
    if k in ('str', 'int', 'bool'):
        return [t[1]]
    if k == 'empty':
        return []
    if k == 'param':
        return list(env['params'][t[1]])
    if k == 'tuple':
        parts = [ev(x, db, env) for x in t[1:]]
        return [tuple(c) for c in itertools.product(*parts)]
    if k == 'set' or k == 'union':
        out = []
        for x in t[1:]:
            out.extend(ev(x, db, env))
        return out
    if k in ('eq', 'neq'):
        a, b = ev(t[1], db, env), ev(t[2], db, env)
        return [(x == y) == (k == 'eq') for x in a for y in b]
    if k in ('and', 'or'):
        a, b = ev(t[1], db, env), ev(t[2], db, env)
        return [(x and y) if k == 'and' else (x or y) for x in a for y in b]
    if k == 'plus':
        return [x + y for x in ev(t[1], db, env) for y in ev(t[2], db, env)]
    if k == 'concat':
        return [x + y for x in ev(t[1], db, env) for y in ev(t[2], db, env)]
    if k == 'not':
        return [not x for x in ev(t[1], db, env)]
    if k == 'in':
        a, b = ev(t[1], db, env), ev(t[2], db, env)
        return [x in b for x in a]
    if k == 'coalesce':
        a = ev(t[1], db, env)
        return a if a else ev(t[2], db, env)
    if k == 'exists':
        return [bool(ev(t[1], db, env))]
    if k == 'distinct':
        return _dedup(ev(t[1], db, env))
    if k == 'count':
        return [len(ev(t[1], db, env))]
    if k == 'if':
        out = []
        for c in ev(t[1], db, env):
            out.extend(ev(t[2] if c else t[3], db, env))
        return out
    if k == 'detached':
        return ev(t[1], db, env)
    if k == 'shape':
        return ev(t[1], db, env)
    if k == 'select':
        vals = ev(t[1], db, env)
        if t[2] is not None:
            kept = []
            for v in vals:
                e2 = dict(env, subject=v)
                if any(x is True for x in ev(t[2], db, e2)):
                    kept.append(v)
            vals = kept
        off = t[4] if len(t) > 4 else None
        lim = t[3] if len(t) > 3 else None
        if off is not None:
            n = ev(off, db, env)
            vals = vals[n[0]:] if n else vals
        if lim is not None:
            n = ev(lim, db, env)
            vals = vals[:n[0]] if n else vals
        return vals
    if k == 'for':
        out = []
        for v in ev(t[2], db, env):
            e2 = dict(env, vars=dict(env['vars'], **{t[1]: [v]}))
            out.extend(ev(t[3], db, e2))
        return out
    if k == 'with':
        e2 = dict(env, vars=dict(env['vars'], **{t[1]: ev(t[2], db, env)}))
        return ev(t[3], db, e2)
    raise Unsupported(k)


def evaluate(t, db: DB, params: Dict[str, List[Any]]):
    return ev(t, db, {'vars': {}, 'params': params, 'subject': None})


# ---- a family of database instances -------------------------------------------------

def _mk(spec):
    db = DB()
    persons = []
    for typ, name, nick, tags, age, level in spec['persons']:
        vals = dict(name=name, nick=nick, tags=list(tags), age=age, best=None, friends=[])
        if typ in ('Admin', 'Chief'):
            vals['level'] = level
        persons.append(db.add(typ, **vals))
    for i, (best, friends) in enumerate(spec.get('links', [])):
        db.data[persons[i].id]['best'] = persons[best] if best is not None else None
        db.data[persons[i].id]['friends'] = [persons[j] for j in friends]
    for author, title, likes in spec.get('posts', []):
        db.add('Post', author=persons[author], title=title, likes=[persons[j] for j in likes])
    return db


SPECS = [
    dict(persons=[]),
    dict(persons=[('Person', 'x', None, [], 1, None)], links=[(None, [])]),
    dict(persons=[('Person', 'x', 'n', ['a'], 1, None)], links=[(0, [0])], posts=[(0, 't', [0])]),
    dict(persons=[('Admin', 'x', None, ['a', 'a'], 2, 5)], links=[(None, [])], posts=[(0, None, [])]),
    dict(persons=[('Person', 'x', 'n', ['a', 'b'], 1, None), ('Person', 'x', None, [], 1, None)],
         links=[(1, [1]), (None, [0, 1])], posts=[(0, 't', [0, 1]), (1, 't', [])]),
    dict(persons=[('Person', 'y', None, ['a'], 1, None), ('Admin', 'x', 'n', ['a'], 2, None)],
         links=[(1, [0, 1]), (0, [])], posts=[(1, None, [1])]),
    dict(persons=[('Person', 'x', 'p', [], 1, None), ('Admin', 'z', 'q', ['b', 'c'], 3, 7), ('Person', 'x', None, ['c'], 1, None)],
         links=[(2, [1, 2]), (None, [0]), (0, [])], posts=[(0, 'x', [1, 2]), (0, 'y', [0]), (2, None, [])]),
    dict(persons=[('Admin', 'x', None, [], 1, 1), ('Admin', 'x', None, [], 1, None)], links=[(None, [1]), (0, [0])]),
    dict(persons=[('Chief', 'x', None, ['a'], 1, 2)], links=[(0, [0])], posts=[(0, 't', [0])]),
    dict(persons=[('Person', 'x', None, [], 1, None), ('Chief', 'y', 'n', [], 4, None), ('Admin', 'x', None, ['t'], 1, 3)],
         links=[(1, [1, 2]), (None, []), (1, [0])], posts=[(1, None, [2])]),
]
NDB = len(SPECS)
_DBS = {}


def database(i) -> DB:
    if i not in _DBS:
        _DBS[i] = _mk(SPECS[i])
    return _DBS[i]


PARAMSETS = [
    {'s': ['x'], 'o': [], 'n': [1]},
    {'s': ['q'], 'o': ['x'], 'n': [0]},
    {'s': ['x'], 'o': ['n'], 'n': [2]},
]
NPARAM = len(PARAMSETS)
