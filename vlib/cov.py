"""Path counters used by harnesses.

`cov.done()` is called at the end of a harness body: `count()` is then the
number of explored paths that got past the precondition and through the
subject to the final comparison (the `distinct_nontrivial` figure of the
evidence: CrossHair never repeats a decision sequence, so each completed path
is a distinct class of inputs).  `cov.hit(tag)` counts events (operations
applied, monitor evaluations) under a concrete tag."""
_n = 0
_tags = {}


def reset():
    global _n
    _n = 0
    _tags.clear()


def hit(tag: str, k: int = 1):
    """`tag` must be a concrete string (never derived from symbolic data)."""
    _tags[tag] = _tags.get(tag, 0) + k


def done(tag: str = ''):
    global _n
    _n += 1
    if tag:
        _tags[tag] = _tags.get(tag, 0) + 1


def count() -> int:
    return _n


def tags():
    return dict(_tags)
