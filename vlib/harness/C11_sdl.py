"""C11 - SDL is declarative: declaration order does not matter.

Subject: edb.schema.ddl.apply_sdl, edb/edgeql/declarative.py (sdl_to_ddl and
its dependency tracing), edb.common.topological, and the delta machinery
behind them, driven with hand-built SDL documents (qlast.Schema nodes - the
parser is not available)."""
import itertools

import vlib.shims  # noqa: F401
from vlib import cov
from vlib import schema_kit as K
from vlib.concrete import untraced, concrete_index, concrete_bool

from edb import errors
from edb.edgeql import ast as qlast
from edb.edgeql import qltypes
from edb.schema import ddl as s_ddl

SUBJECTS = [
    'file:edb/edgeql/declarative.py', 'edb.schema.ddl.apply_sdl', 'edb.common.topological.sort_ex',
    'file:edb/edgeql/tracer.py', 'file:edb/schema/delta.py', 'file:edb/schema/inheriting.py',
]

OC = qltypes.SchemaObjectClass
NAMES = ('A', 'B', 'C')
PERMS3 = list(itertools.permutations(range(3)))
PERMS4 = list(itertools.permutations(range(4)))


def _type(name, bases, members, abstract):
    return qlast.CreateObjectType(name=qlast.ObjectRef(name=name, itemclass=OC.TYPE),
                                  bases=[K._tn(b) for b in bases], abstract=abstract, commands=list(members))


def _prop(name, target='std::str', required=False):
    return qlast.CreateConcreteProperty(name=qlast.ObjectRef(name=name, itemclass=OC.PROPERTY), is_required=required,
                                        target=K._tn(target), cardinality=qltypes.SchemaCardinality.One, commands=[])


def _link(name, target, multi=False, overloaded=False):
    return qlast.CreateConcreteLink(name=qlast.ObjectRef(name=name, itemclass=OC.LINK), is_required=False,
                                    target=K._tn(target), commands=[], declared_overloaded=overloaded,
                                    cardinality=qltypes.SchemaCardinality.Many if multi else qltypes.SchemaCardinality.One)


def _anno_decl():
    return qlast.CreateAnnotation(name=qlast.ObjectRef(name='note', itemclass=OC.ANNOTATION), abstract=True,
                                  inheritable=True, bases=[], commands=[])


def _anno_value():
    return qlast.CreateAnnotationValue(name=qlast.ObjectRef(name='note'), value=qlast.Constant.string('v'))


def _ancestors(bases, i):
    out, j = [], i
    while bases[j] and bases[j] - 1 not in out and bases[j] - 1 != i:
        j = bases[j] - 1
        out.append(j)
    return out


def declarations(bases, links, annotated, with_prop, shared=False):
    """bases[i] in 0..3: type i extends nothing (0) or NAMES[bases[i]-1];
    links[i] in 0..3: type i has no link / a link to NAMES[links[i]-1];
    annotated: index of the type carrying an annotation value (3 = none);
    shared: every link is the multi link `l` - a type whose ancestor also declares it
    declares it `overloaded` (what SDL requires)."""
    decls = []
    for i, n in enumerate(NAMES):
        b = [NAMES[bases[i] - 1]] if bases[i] else []
        members = []
        if with_prop:
            members.append(_prop('p%d' % i, 'std::int64' if i else 'std::str', required=(i == 1)))
        if links[i] and shared:
            members.append(_link('l', NAMES[links[i] - 1], multi=True,
                                 overloaded=any(links[a] for a in _ancestors(bases, i))))
        elif links[i]:
            members.append(_link('l%d' % i, NAMES[links[i] - 1], multi=(i == 2)))
        if annotated == i:
            members.append(_anno_value())
        decls.append((n, b, members))
    return decls


def build_doc(decls, order, flip, split, anno):
    """order: permutation of the top-level declarations (types + the
    annotation declaration if `anno`); flip: reverse the members of every
    type body; split: put the first declaration (in this order) into a
    separate module block."""
    nodes = []
    for n, b, members in decls:
        ms = list(reversed(members)) if flip else list(members)
        nodes.append(_type(n, b, ms, abstract=False))
    if anno:
        nodes.append(_anno_decl())
    nodes = [nodes[i] for i in order]
    mod = qlast.ObjectRef(name='default')
    if split and len(nodes) > 1:
        blocks = [qlast.ModuleDeclaration(name=mod, declarations=nodes[:1]),
                  qlast.ModuleDeclaration(name=mod, declarations=nodes[1:])]
    else:
        blocks = [qlast.ModuleDeclaration(name=mod, declarations=nodes)]
    return qlast.Schema(declarations=blocks)


def apply(doc):
    std = K.std_schema()
    try:
        s, _warnings = s_ddl.apply_sdl(doc, base_schema=std, current_schema=std)
    except errors.EdgeDBError as e:
        return ('rejected', type(e).__name__, str(e)[:120])
    return ('schema', K.user_view(s), K.integrity_problems(s))


def base_cycle(bases) -> bool:
    for i in range(3):
        seen = set()
        j = i
        while bases[j]:
            j = bases[j] - 1
            if j in seen or j == i:
                return True
            seen.add(j)
    return False


LAST_INFO = {}


def order_independent(b0: int, b1: int, b2: int, l0: int, l1: int, l2: int, annotated: int, with_prop: bool,
                      perm: int, flip: bool, split: bool) -> bool:
    vals = [concrete_index(x, 4) for x in (b0, b1, b2, l0, l1, l2, annotated)]
    perm = concrete_index(perm, 24)
    if min(vals) < 0 or perm < 0:
        return True
    with_prop, flip, split = concrete_bool(with_prop), concrete_bool(flip), concrete_bool(split)
    with untraced(heavy=True):
        return _order_independent(vals[:3], vals[3:6], vals[6], with_prop, perm, flip, split)


def order_independent_shared(b0: int, b1: int, b2: int, l0: int, l1: int, l2: int, perm: int, exclude_known: bool) -> bool:
    """The same with one shared (overloaded) multi link `l`; no annotation, no properties."""
    vals = [concrete_index(x, 4) for x in (b0, b1, b2, l0, l1, l2)]
    perm = concrete_index(perm, 6)
    if min(vals) < 0 or perm < 0:
        return True
    exclude_known = concrete_bool(exclude_known)
    with untraced(heavy=True):
        if exclude_known and f18_shape(vals[:3], vals[3:6]):
            return True
        return _order_independent(vals[:3], vals[3:6], 3, False, perm, False, False, shared=True)


def f18_shape(bases, links) -> bool:
    """Witness class of known finding F18: some type declares the shared link, an ancestor of it
    declares it too, and that ancestor has a further descendant chain of length >= 2 (grandparent
    -> parent -> child all on one inheritance path with the parent overloading the link)."""
    for child in range(3):
        anc = _ancestors(bases, child)
        if len(anc) >= 2 and links[anc[0]] and any(links[a] for a in anc[1:]):
            return True
    return False


def f18_witness(args) -> bool:
    vals = [int(x) for x in args[:6]]
    return f18_shape(vals[:3], vals[3:6])


def _order_independent(bases, links, annotated, with_prop, perm, flip, split, shared=False) -> bool:
    K.reset_ids(0)
    anno = annotated < 3
    decls = declarations(bases, links, annotated, with_prop, shared)
    n = 4 if anno else 3
    if not anno and perm >= 6:
        return True
    order = (PERMS4 if anno else PERMS3)[perm]
    ref = apply(build_doc(decls, tuple(range(n)), False, False, anno))
    got = apply(build_doc(decls, order, flip, split, anno))
    cov.hit('step')
    info = {'types': [(nm, b, [type(m).__name__ + ':' + m.name.name for m in ms]) for nm, b, ms in decls],
            'order': order, 'flip': flip, 'split': split}
    # a document is rejected for a dependency cycle only if its declarations really are cyclic
    cyclic = base_cycle(bases)
    for r in (ref, got):
        if r[0] == 'rejected' and not cyclic and 'cycl' in r[2].lower():
            LAST_INFO.clear()
            LAST_INFO.update(info, rejected=r)
            return False
        if r[0] == 'schema' and (cyclic or r[2]):
            LAST_INFO.clear()
            LAST_INFO.update(info, accepted_cyclic=cyclic, integrity=r[2][:3])
            return False
    if ref[0] != got[0] or (ref[0] == 'schema' and ref[1] != got[1]):
        LAST_INFO.clear()
        LAST_INFO.update(info, reference=str(ref)[:300], permuted=str(got)[:300])
        return False
    cov.done('document' if ref[0] == 'schema' else 'rejected-document')
    return True
