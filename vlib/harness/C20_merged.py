"""C20, engine E2: merged bit-vector encoding of the real topological.sort_ex
produced by vlib.pysym from the function's current source.

Input: N keys 0..N-1 (plus, optionally, one key that is not in the graph);
every ordered pair (i, j) independently carries a hard edge (deps), a soft
edge (weak_deps), a merge edge and a loop_control edge - one Boolean each.
The whole input space (2^(k*N*N) graphs) is one formula; each property
is one solver query over all of them."""
from __future__ import annotations

import itertools
import time
from collections import defaultdict
from typing import Any, Dict, List

import z3

from vlib import pysym
from vlib.pysym import Ctx, Env, Evaluator, SList, SOrdSet, SSet, TRUE


def _topological():
    from edb.common import topological as T
    from edb.common.ordered import OrderedSet
    return T, OrderedSet


class Encoding:
    pass


def encode(N: int, kinds=('hard', 'soft'), dangling: bool = False, allow_unresolved: bool = False,
           concrete: Dict[str, Any] | None = None, ctx: Ctx | None = None, drop=()) -> Encoding:
    """Symbolically evaluates sort_ex on the symbolic graph.  `concrete`, if given,
    maps bit names to python bools (used to validate the evaluator against CPython)."""
    T, OrderedSet = _topological()
    ctx = ctx or Ctx(width=12)
    keys = list(range(N))
    universe = keys + (['X'] if dangling else [])
    bits: Dict[str, Any] = {}

    def bit(kind, i, j):
        name = f'{kind}_{i}_{j}'
        if concrete is not None:
            v = bool(concrete.get(name, False))
        else:
            v = z3.Bool(name)
        bits[name] = v
        return v

    graph = {}
    for i in keys:
        sets = {}
        for kind in ('hard', 'soft', 'merge', 'lc'):
            if kind in kinds and kind not in drop:
                sets[kind] = SSet(ctx, universe, init={j: bit(kind, i, j) for j in universe})
            else:
                sets[kind] = None
        graph[i] = T.DepGraphEntry(item=i, deps=sets['hard'] if sets['hard'] is not None else SSet(ctx, universe),
                                   weak_deps=sets['soft'] if sets['soft'] is not None else SSet(ctx, universe),
                                   merge=sets['merge'] if 'merge' not in drop else (SSet(ctx, universe) if 'merge' in kinds else None),
                                   loop_control=sets['lc'] if sets['lc'] is not None else SSet(ctx, universe))
    node, src = pysym.parse_function(T.sort_ex)
    pysym.check_supported(node)
    models = {
        defaultdict: lambda ev, factory: pysym.SDefaultDict(lambda: models[factory](ev)),
        OrderedSet: lambda ev: SOrdSet(ctx, universe),
        set: lambda ev: SSet(ctx, universe),
    }
    glob = dict(T.__dict__)
    glob['__models__'] = models
    ev = Evaluator(ctx, glob, max_depth=N + 1)
    env = Env()
    env.set('graph', graph)
    env.set('allow_unresolved', allow_unresolved)
    raised: List[pysym.Raised] = []
    g_end = ev.exec_block(node.body, env, TRUE, raised)
    order = env.vars.get('__return__')
    if order is None and g_end.false:
        order = SList(ctx)          # no path reaches the return statement
    if not isinstance(order, SList):
        raise pysym.Unsupported('sort_ex does not return a sequence built from a list')
    E = Encoding()
    E.N, E.ctx, E.bits, E.keys, E.universe = N, ctx, bits, keys, universe
    E.kinds = kinds
    E.allow = allow_unresolved
    E.order = order
    E.completed = g_end.expr()
    E.raised = raised
    E.exc = lambda cls: z3.Or([r.guard.expr() for r in raised if issubclass(r.cls, cls)] or [z3.BoolVal(False)])
    E.other_exc = [r for r in raised if not issubclass(r.cls, (T.CycleError, T.UnresolvedReferenceError))]
    E.overflow = ev.overflow
    E.frames = ctx.frames
    E.src = src
    E.T = T
    # positions
    w = ctx.width
    one, zero = z3.BitVecVal(1, w), z3.BitVecVal(0, w)
    prefix = zero
    cnt = {k: zero for k in keys}
    pos = {k: zero for k in keys}
    foreign = []
    for v, gg in order.entries:
        ge = gg.expr()
        if v not in cnt:
            foreign.append(ge)
            continue
        cnt[v] = ctx.fresh_bv(cnt[v] + z3.If(ge, one, zero))
        pos[v] = ctx.fresh_bv(z3.If(ge, prefix, pos[v]))
        prefix = ctx.fresh_bv(prefix + z3.If(ge, one, zero))
    E.cnt, E.pos, E.total, E.foreign = cnt, pos, prefix, foreign
    return E


def _b(v):
    return z3.BoolVal(v) if isinstance(v, bool) else v


def reach_matrix(N, A):
    R = [[_b(A[i][j]) for j in range(N)] for i in range(N)]
    for _ in range(max(1, (N - 1).bit_length()) + 1):
        R = [[z3.Or(R[i][j], z3.Or([z3.And(R[i][k], R[k][j]) for k in range(N)])) for j in range(N)] for i in range(N)]
    return R


def properties(E: Encoding) -> Dict[str, Any]:
    """name -> negated property (sat = counterexample)."""
    T = E.T
    N, keys = E.N, E.keys
    w = E.ctx.width

    def B(kind, i, j):
        return _b(E.bits.get(f'{kind}_{i}_{j}', False))

    hard = [[z3.Or(B('hard', i, j), B('merge', i, j)) for j in keys] for i in keys]
    # edges that make sort_ex fail when cyclic: deps, merge and loop_control
    strict = [[z3.Or(hard[i][j], B('lc', i, j)) for j in keys] for i in keys]
    alle = [[z3.Or(strict[i][j], B('soft', i, j)) for j in keys] for i in keys]
    Rh = reach_matrix(N, strict)
    cyc = z3.Or([Rh[i][i] for i in keys])
    Rhh = reach_matrix(N, hard)
    hcyc = z3.Or([Rhh[i][i] for i in keys])
    Ra = reach_matrix(N, alle)
    cyc_all = z3.Or([Ra[i][i] for i in keys])
    cycle_raised = E.exc(T.CycleError)
    unres_raised = E.exc(T.UnresolvedReferenceError)
    dangling_ref = z3.Or([_b(v) for name, v in E.bits.items() if name.endswith('_X')] or [z3.BoolVal(False)])
    ok = E.completed
    one = z3.BitVecVal(1, w)
    props = {
        # exactly one outcome, and no other exception type
        'outcome_total': z3.Not(z3.And(z3.Or(ok, cycle_raised, unres_raised),
                                       z3.Not(z3.And(ok, cycle_raised)), z3.Not(z3.And(ok, unres_raised)))),
        # a cycle over deps/merge edges is always reported; a reported cycle is a real cycle over
        # deps/merge/loop_control edges (the two coincide when there are no loop_control edges)
        'hard_cyclic_implies_cycle_error': z3.And(z3.Not(unres_raised), hcyc, z3.Not(cycle_raised)),
        'cycle_error_implies_real_cycle': z3.And(cycle_raised, z3.Not(cyc)),
        'every_item_exactly_once': z3.And(ok, z3.Or([E.cnt[k] != one for k in keys] + E.foreign
                                                     + [E.total != z3.BitVecVal(N, w)])),
        'after_hard_deps': z3.And(ok, z3.Or([z3.And(hard[i][j], z3.UGE(E.pos[j], E.pos[i]))
                                             for i in keys for j in keys if i != j] or [z3.BoolVal(False)])),
        'soft_honoured_when_acyclic': z3.And(ok, z3.Not(cyc_all),
                                             z3.Or([z3.And(B('soft', i, j), z3.UGE(E.pos[j], E.pos[i]))
                                                    for i in keys for j in keys if i != j] or [z3.BoolVal(False)])),
    }
    props['strict_cyclic_implies_cycle_error'] = z3.And(z3.Not(unres_raised), cyc, z3.Not(cycle_raised))
    if 'soft' in E.kinds:
        # soft edges never change whether sorting succeeds: same graph without its soft edges
        E2 = encode(E.N, E.kinds, 'X' in E.universe, E.allow, ctx=E.ctx, drop=('soft',))
        soft_dangling = z3.Or([_b(v) for name, v in E.bits.items() if name.startswith('soft_') and name.endswith('_X')]
                              or [z3.BoolVal(False)])
        props['soft_edges_never_change_outcome'] = z3.And(
            z3.Not(soft_dangling),
            z3.Or(E.completed != E2.completed, cycle_raised != E2.exc(T.CycleError),
                  unres_raised != E2.exc(T.UnresolvedReferenceError)))
        E.frames += 0
    if 'X' in E.universe:
        props['unresolved_iff_dangling'] = (unres_raised != z3.And(dangling_ref, z3.BoolVal(not E.allow)))
    if E.other_exc:
        props['no_other_exception'] = z3.Or([r.guard.expr() for r in E.other_exc])
    return props


def solve(E: Encoding, neg, timeout_s: float):
    s = z3.Then('simplify', 'solve-eqs', 'bit-blast', 'sat').solver()
    s.set('timeout', int(timeout_s * 1000))
    s.add(E.ctx.defs)
    s.add(neg)
    t = time.time()
    r = s.check()
    dt = time.time() - t
    model = None
    if str(r) == 'sat':
        m = s.model()
        model = {name: bool(z3.is_true(m.eval(v, model_completion=True))) for name, v in E.bits.items() if not isinstance(v, bool)}
    return str(r), dt, model


def solve_plain(E: Encoding, neg, timeout_s: float):
    """Second opinion with the default z3 solver (no tactic pipeline)."""
    s = z3.Solver()
    s.set('timeout', int(timeout_s * 1000))
    s.add(E.ctx.defs)
    s.add(neg)
    t = time.time()
    r = s.check()
    return str(r), time.time() - t


def solve_cvc5(E: Encoding, neg, timeout_s: float):
    """Second opinion from a different solver: the SMT-LIB2 text of the same query
    handed to the cvc5 binary."""
    import os
    import shutil
    import subprocess
    import tempfile
    exe = shutil.which('cvc5')
    if not exe:
        return 'unavailable', 0.0
    d = tempfile.mkdtemp(prefix='verif_c20_')
    try:
        path = os.path.join(d, 'q.smt2')
        with open(path, 'w') as f:
            f.write(smt2(E, neg))
        t = time.time()
        try:
            r = subprocess.run([exe, '--tlimit=%d' % int(timeout_s * 1000), path], capture_output=True, text=True,
                               timeout=timeout_s + 30)
            txt = (r.stdout + r.stderr).strip()
            if '(error' in txt or 'error' in txt.lower() and 'unsat' not in txt:
                res = 'error: ' + txt[:100]
            elif txt.startswith('unsat'):
                res = 'unsat'
            elif txt.startswith('sat'):
                res = 'sat'
            else:
                res = 'unknown'
        except subprocess.TimeoutExpired:
            res = 'unknown'
        return res, time.time() - t
    finally:
        shutil.rmtree(d, ignore_errors=True)


def smt2(E: Encoding, neg) -> str:
    s = z3.Solver()
    s.add(E.ctx.defs)
    s.add(neg)
    return '(set-logic QF_BV)\n' + s.to_smt2().replace('(set-info :status unknown)\n', '')


# ---------------------------------------------------------------------------
# concrete side: the real function

def build_real_graph(N, assignment: Dict[str, bool], kinds, dangling):
    T, _ = _topological()
    universe = list(range(N)) + (['X'] if dangling else [])
    graph = {}
    for i in range(N):
        def members(kind):
            return {j for j in universe if assignment.get(f'{kind}_{i}_{j}', False)}
        graph[i] = T.DepGraphEntry(item=i, deps=members('hard'), weak_deps=members('soft'),
                                   merge=members('merge') if 'merge' in kinds else None,
                                   loop_control=members('lc'))
    return graph


def run_real(N, assignment, kinds=('hard', 'soft'), dangling=False, allow_unresolved=False):
    """('ok', order) | ('cycle', None) | ('unresolved', None) | ('error', repr)"""
    T, _ = _topological()
    graph = build_real_graph(N, assignment, kinds, dangling)
    try:
        out = [k for k, _v in T.sort_ex(graph, allow_unresolved=allow_unresolved)]
        return 'ok', out
    except T.CycleError:
        return 'cycle', None
    except T.UnresolvedReferenceError:
        return 'unresolved', None
    except Exception as e:           # noqa: BLE001
        return 'error', repr(e)


def oracle_violations(N, assignment, kinds=('hard', 'soft'), dangling=False, allow_unresolved=False) -> List[str]:
    """The property evaluated concretely on the real function (used to replay a model)."""
    kind, out = run_real(N, assignment, kinds, dangling, allow_unresolved)
    keys = list(range(N))

    def has(k, i, j):
        return bool(assignment.get(f'{k}_{i}_{j}', False))

    def cyclic(edge):
        R = [[edge(i, j) for j in keys] for i in keys]
        for k in keys:
            for i in keys:
                for j in keys:
                    R[i][j] = R[i][j] or (R[i][k] and R[k][j])
        return any(R[i][i] for i in keys)

    hard = lambda i, j: has('hard', i, j) or has('merge', i, j)         # noqa: E731
    strict = lambda i, j: hard(i, j) or has('lc', i, j)                   # noqa: E731
    anye = lambda i, j: strict(i, j) or has('soft', i, j)                 # noqa: E731
    bad = []
    dang = dangling and any(v for n, v in assignment.items() if n.endswith('_X'))
    if kind == 'error':
        return ['unexpected exception ' + out]
    if dang and not allow_unresolved:
        if kind != 'unresolved':
            bad.append('reference to a missing item not reported')
        return bad
    if kind == 'unresolved':
        return ['UnresolvedReferenceError without a dangling reference']
    if (kind == 'cycle') != cyclic(strict):
        bad.append('CycleError=%s but dependencies (deps, merge, loop_control) cyclic=%s' % (kind == 'cycle', cyclic(strict)))
    if kind == 'ok':
        if sorted(out) != keys:
            bad.append('result %r is not a permutation of the keys' % (out,))
        else:
            pos = {k: n for n, k in enumerate(out)}
            for i in keys:
                for j in keys:
                    if i != j and hard(i, j) and pos[j] > pos[i]:
                        bad.append(f'{i} placed before its hard dependency {j}')
            if not cyclic(anye):
                for i in keys:
                    for j in keys:
                        if i != j and has('soft', i, j) and pos[j] > pos[i]:
                            bad.append(f'soft dependency {i}->{j} not honoured although hard+soft is acyclic')
    return bad


def oracle_violations_ext(N, assignment, kinds, dangling, allow_unresolved, prop_name=''):
    """oracle_violations + the metamorphic soft-edge check, on the real function."""
    bad = oracle_violations(N, assignment, kinds, dangling, allow_unresolved)
    soft_dangling = any(v for n, v in assignment.items() if n.startswith('soft_') and n.endswith('_X'))
    if not soft_dangling and any(v for n, v in assignment.items() if n.startswith('soft_')):
        nosoft = {n: (False if n.startswith('soft_') else v) for n, v in assignment.items()}
        a = run_real(N, assignment, kinds, dangling, allow_unresolved)[0]
        b = run_real(N, nosoft, kinds, dangling, allow_unresolved)[0]
        if a != b:
            bad.append(f'outcome {a!r} with the soft edges, {b!r} without them')
    return bad


def validate_evaluator(N=2, kinds=('hard', 'soft', 'merge', 'lc'), dangling=True, samples=200, seed=1):
    """Translator validation: the evaluator run on fully concrete graphs must
    agree with CPython running the real function (outcome and order).
    Exhaustive when the space has at most `samples` graphs, else a seeded sample
    (this validates the translator; it is not the deciding step)."""
    import random
    names = [f'{k}_{i}_{j}' for i in range(N) for k in kinds for j in list(range(N)) + (['X'] if dangling else [])]
    space = 2 ** len(names)
    if space <= samples:
        picks = range(space)
    else:
        rnd = random.Random(seed)
        dens = [0.15, 0.3, 0.5]
        picks = None
    n = 0
    bad = []

    def assignments():
        if picks is not None:
            for idx in picks:
                yield {nm: bool(idx >> b & 1) for b, nm in enumerate(names)}
        else:
            for i in range(samples):
                d = dens[i % len(dens)]
                yield {nm: rnd.random() < d for nm in names}
    for asg in assignments():
        n += 1
        for allow in ((False, True) if dangling else (False,)):
            real = run_real(N, asg, kinds, dangling, allow)
            E = encode(N, kinds, dangling, allow, concrete=asg)
            s = z3.Solver()
            s.add(E.ctx.defs)
            assert str(s.check()) == 'sat'
            m = s.model()

            def tv(e):
                return z3.is_true(m.eval(_b(e), model_completion=True))
            if tv(E.completed):
                got = ('ok', [v for v, gg in E.order.entries if tv(gg.expr())])
            elif tv(E.exc(E.T.CycleError)):
                got = ('cycle', None)
            elif tv(E.exc(E.T.UnresolvedReferenceError)):
                got = ('unresolved', None)
            else:
                got = ('none', None)
            if got != real:
                bad.append((asg, allow, real, got))
                if len(bad) > 3:
                    return n, bad
    return n, bad
