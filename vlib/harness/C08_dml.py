"""C08 (first half) - a statement that can modify data reports MODIFICATIONS,
whatever the nesting context of the DML inside it.

Subject: the REAL query path of the server compiler: compiler._compile_dispatch_ql
-> _compile_ql_query / _compile_ql_explain -> edgeql.compiler (where has_dml is
recorded: ctx.env.dml_exprs in stmt.py) -> pgsql.compiler -> sertypes, then
_make_query_unit and QueryUnitGroup, on hand-built queries of
vlib/harness/Q_family.py (DML forms and DML in 14 nesting contexts, plus the
read-only forms), plain and wrapped in ANALYZE."""
import types

import immutables

import vlib.shims  # noqa: F401
from vlib import cov
from vlib import query_kit as Q
from vlib.concrete import untraced, concrete_index
from vlib.harness import Q_family as F

from edb import errors
from edb.edgeql import ast as qlast
from edb.schema import schema as s_schema
from edb.server import config, defines
from edb.server.compiler import compiler as C
from edb.server.compiler import dbstate, enums
from edb.pgsql import params as pgparams

SUBJECTS = ['edb.server.compiler.compiler._compile_dispatch_ql', 'edb.server.compiler.compiler._compile_ql_query',
            'edb.server.compiler.compiler._compile_ql_explain', 'edb.server.compiler.compiler._make_query_unit',
            'file:edb/edgeql/compiler/stmt.py', 'file:edb/edgeql/compiler/func.py', 'file:edb/edgeql/compiler/stmtctx.py',
            'edb.server.compiler.dbstate.QueryUnitGroup.append']

Cap = enums.Capability
_RP = pgparams.get_default_runtime_params()
_CSTATE = types.SimpleNamespace(std_schema=s_schema.EMPTY_SCHEMA, config_spec=config.FlatSpec(), backend_runtime_params=_RP)
EMPTY = immutables.Map()
LAST = {}


def _ctx():
    state = dbstate.CompilerConnectionState(
        user_schema=Q.user_schema(), global_schema=s_schema.EMPTY_SCHEMA, modaliases=immutables.Map({None: 'default'}),
        session_config=EMPTY, database_config=EMPTY, system_config=EMPTY, cached_reflection=EMPTY)
    return C.CompileContext(compiler_state=_CSTATE, state=state, output_format=enums.OutputFormat.BINARY,
                            expected_cardinality_one=False, protocol_version=defines.CURRENT_PROTOCOL,
                            backend_runtime_params=_RP)


def _explain(stmt, execute):
    args = None
    if execute is not None:
        args = qlast.NamedTuple(elements=[qlast.TupleElement(name=qlast.Ptr(name='execute'), val=qlast.Constant.boolean(execute))])
    return qlast.ExplainStmt(query=stmt, args=args)


def capabilities_ok(form: int, a: int, wa: int, b: int, wb: int, wrap: int) -> bool:
    """wrap: 0 plain, 1 ANALYZE, 2 ANALYZE (execute := true), 3 ANALYZE (execute := false)."""
    form = concrete_index(form, F.NFORM)
    a, b = concrete_index(a, F.NATOM), concrete_index(b, F.NATOM)
    wa, wb = concrete_index(wa, F.NWRAP), concrete_index(wb, F.NWRAP)
    wrap = concrete_index(wrap, 4)
    if min(form, a, b, wa, wb, wrap) < 0:
        return True
    with untraced(heavy=True):
        return _capabilities_ok(form, a, wa, b, wb, wrap)


def _capabilities_ok(form, a, wa, b, wb, wrap) -> bool:
    cov.hit('step')
    r = F.query(form, a, wa, b, wb)
    if r is None:
        return True
    t, _k = r
    dml = Q.contains_dml(t)
    stmt = Q.as_statement(t)
    if wrap:
        stmt = _explain(stmt, {1: None, 2: True, 3: False}[wrap])
    ctx = _ctx()
    LAST.clear()
    try:
        query, caps = C._compile_dispatch_ql(ctx, stmt)
    except errors.InternalServerError:
        cov.hit('internal compiler error')
        return True
    except errors.EdgeDBError:
        cov.hit('rejected')
        return True
    probs = []
    has_mod = bool(caps & Cap.MODIFICATIONS)
    if dml and not has_mod:
        probs.append(f'the statement contains a data-modifying sub-statement but its capabilities are {caps!r}')
    if not dml and has_mod:
        probs.append(f'read-only statement reports {caps!r}')
    if getattr(query, 'has_dml', None) is not None and bool(query.has_dml) != dml:
        probs.append(f'has_dml={query.has_dml} but the statement {"contains" if dml else "does not contain"} DML')
    if probs:
        LAST.update(query=Q.text(t), wrap=wrap, problems=probs)
        return False
    cov.done('dml query' if dml else 'read-only query')
    return True


def capabilities_raw(form, a, wa, b, wb, wrap):
    ok = capabilities_ok(form, a, wa, b, wb, wrap)
    return {'ok': ok, **({} if ok else LAST)}


def twin_dml(a: int) -> bool:
    """Reachability twin: a nested DML statement that is accepted and reports MODIFICATIONS."""
    a = concrete_index(a, F.NNEST)
    if a < 0:
        return False
    with untraced(heavy=True):
        r = F.query(4, 0, 0, 0, a)
        if r is None:
            return False
        try:
            q, caps = C._compile_dispatch_ql(_ctx(), Q.as_statement(r[0]))
        except Exception:      # noqa: BLE001
            return False
        return bool(caps & Cap.MODIFICATIONS)
