"""C08 - declared capabilities: statement-kind dispatch and aggregation.

Subject: compiler._compile_dispatch_ql (which capability every top-level
statement kind gets), _make_query_unit (the unit carries it), dbstate.
QueryUnitGroup.append (a group carries the OR of its units) and
enums.Capability.make_error (which capability a refusal names).
Sub-compilers that need a schema are replaced by stand-ins that return real
dbstate result objects whose has_dml / tx_action are harness-chosen."""
import types

import immutables

import vlib.shims  # noqa: F401
from vlib import cov

from edb import errors
from edb.edgeql import ast as qlast
from edb.edgeql import qltypes
from edb.server.compiler import compiler as C
from edb.server.compiler import dbstate, enums
from vlib.harness import C09_tx as TX        # shares the state stand-ins

SUBJECTS = [
    'edb.server.compiler.compiler._compile_dispatch_ql',
    'edb.server.compiler.compiler._make_query_unit',
    'edb.server.compiler.dbstate.QueryUnitGroup.append',
    'edb.server.compiler.enums.Capability',
]

Cap = enums.Capability
_KNOB = types.SimpleNamespace(has_dml=False, tx_action=None, simple=False, mig_kind=0)


def _query():
    if _KNOB.simple:
        return dbstate.SimpleQuery(sql=b'select', has_dml=_KNOB.has_dml)
    return dbstate.Query(sql=b'select', has_dml=_KNOB.has_dml, sql_hash=b'', cardinality=enums.Cardinality.ONE,
                         out_type_data=b'', out_type_id=b'', in_type_data=b'', in_type_id=b'')


def _stub_query(ctx, ql, **kw):
    return _query()


def _stub_ddl(ctx, ql, source=None):
    return dbstate.DDLQuery(sql=b'ddl', user_schema=None, feature_used_metrics=None)


def _stub_migration(ctx, ql, in_script=False):
    if _KNOB.mig_kind == 0:
        return dbstate.MigrationControlQuery(sql=b'', action=dbstate.MigrationAction.START,
                                             tx_action=_KNOB.tx_action, cacheable=False, modaliases=None)
    if _KNOB.mig_kind == 1:
        return dbstate.DDLQuery(sql=b'ddl', user_schema=None, feature_used_metrics=None)
    return dbstate.NullQuery()          # DESCRIBE CURRENT MIGRATION


def _stub_config(ctx, ql):
    return dbstate.SessionStateQuery(sql=b'cfg', config_scope=ql.scope)


def _stub_admin(ctx, ql, script_info=None):
    return dbstate.MaintenanceQuery(sql=b'vacuum')


C._compile_ql_query = _stub_query
C._compile_ql_explain = lambda ctx, ql, script_info=None: _query()
C._compile_ql_administer = _stub_admin
C._compile_ql_config_op = _stub_config
C.ddl = types.SimpleNamespace(
    compile_and_apply_ddl_stmt=_stub_ddl, compile_dispatch_ql_migration=_stub_migration,
    produce_feature_used_metrics=lambda *a, **k: None)


def scope_of(i: int):
    if i == 0:
        return qltypes.ConfigScope.SESSION
    if i == 1:
        return qltypes.ConfigScope.GLOBAL
    if i == 2:
        return qltypes.ConfigScope.DATABASE
    return qltypes.ConfigScope.INSTANCE


def txa_of(i: int):
    if i == 0:
        return None
    if i == 1:
        return dbstate.TxAction.START
    if i == 2:
        return dbstate.TxAction.COMMIT
    return dbstate.TxAction.ROLLBACK


def node_of(kind: int, sub: int):
    ref = qlast.ObjectRef(name='x')
    if kind == 0:
        return qlast.CreateModule(name=ref) if sub % 2 == 0 else qlast.DropModule(name=ref)
    if kind == 1:
        if sub % 3 == 0:
            return qlast.StartMigration(target=qlast.CommittedSchema())
        if sub % 3 == 1:
            return qlast.CommitMigration()
        return qlast.AbortMigration()
    if kind == 2:
        if sub % 4 == 0:
            return qlast.StartTransaction()
        if sub % 4 == 1:
            return qlast.RollbackTransaction()
        if sub % 4 == 2:
            return qlast.DeclareSavepoint(name='a')
        return qlast.CommitTransaction()
    if kind == 3:
        if sub % 3 == 0:
            return qlast.SessionResetAllAliases()
        if sub % 3 == 1:
            return qlast.SessionResetModule()
        return qlast.SessionSetAliasDecl(decl=qlast.ModuleAliasDecl(module='m1', alias='x'))
    if kind == 4:
        sc = scope_of(sub % 4)
        if sub >= 4:
            return qlast.ConfigReset(name=ref, scope=sc)
        return qlast.ConfigSet(name=ref, scope=sc, expr=qlast.Constant.integer(1))
    if kind == 5:
        return qlast.ExplainStmt(args=None, query=qlast.SelectQuery(result=qlast.Constant.integer(1)))
    if kind == 6:
        return qlast.AdministerStmt(expr=qlast.FunctionCall(func='vacuum', args=[]))
    if sub % 3 == 0:
        return qlast.SelectQuery(result=qlast.Constant.integer(1))
    if sub % 3 == 1:
        return qlast.InsertQuery(subject=ref, shape=[])
    return qlast.DescribeStmt(object=qlast.DescribeGlobal.Schema, language=qltypes.DescribeLanguage.DDL, options=qlast.Options())


def expected(kind: int, sub: int, has_dml: bool, txa: int, mig_kind: int):
    """Capabilities the statement must at least declare."""
    if kind == 0:
        return Cap.DDL
    if kind == 1:
        if mig_kind == 0:
            return (Cap.DDL | Cap.TRANSACTION) if txa != 0 else Cap.DDL
        if mig_kind == 1:
            return Cap.DDL
        return Cap(0)
    if kind == 2:
        return Cap.TRANSACTION
    if kind == 3:
        return Cap.SESSION_CONFIG
    if kind == 4:
        return Cap.SESSION_CONFIG if sub % 4 <= 1 else Cap.PERSISTENT_CONFIG
    if kind == 6:
        return Cap(0)
    return Cap.MODIFICATIONS if has_dml else Cap(0)


def dispatch_caps(kind: int, sub: int, has_dml: bool, simple: bool, txa: int, mig_kind: int, in_tx: bool) -> bool:
    _KNOB.has_dml = has_dml
    _KNOB.simple = simple
    _KNOB.tx_action = txa_of(txa)
    _KNOB.mig_kind = mig_kind
    state = TX.new_state(1000)
    if in_tx and not (kind == 2 and sub % 4 == 0):
        state.start_tx()
    ctx = TX._ctx(state, False)
    stmt = node_of(kind, sub)
    try:
        comp, caps = C._compile_dispatch_ql(ctx, stmt)
        unit, _ = C._make_query_unit(ctx=ctx, stmt_ctx=ctx, stmt=stmt, is_script=False, is_trailing_stmt=True,
                                     comp=comp, capabilities=caps)
    except (errors.TransactionError, errors.QueryError):
        cov.done('rejected')
        # only transaction statements (wrong block state) and CONFIGURE INSTANCE
        # inside a block may be refused here
        return kind == 2 or (kind == 4 and sub % 4 == 3 and in_tx)
    want = expected(kind, sub, has_dml, txa, mig_kind)
    g = dbstate.QueryUnitGroup()
    g.append(unit, serialize=False)
    cov.done('dispatch')
    return (caps & want) == want and (unit.capabilities & want) == want and (g.capabilities & want) == want


def _caps(b0: bool, b1: bool, b2: bool, b3: bool, b4: bool):
    c = Cap(0)
    if b0:
        c |= Cap.MODIFICATIONS
    if b1:
        c |= Cap.SESSION_CONFIG
    if b2:
        c |= Cap.TRANSACTION
    if b3:
        c |= Cap.DDL
    if b4:
        c |= Cap.PERSISTENT_CONFIG
    return c


def _unit(caps):
    return dbstate.QueryUnit(sql=b'', status=b'', capabilities=caps)


def group_or(a0: bool, a1: bool, a2: bool, a3: bool, a4: bool, b0: bool, b1: bool, b2: bool, b3: bool, b4: bool,
             c0: bool, c1: bool, c2: bool, c3: bool, c4: bool, n: int) -> bool:
    """A group's capabilities are exactly the union of its units'."""
    cs = [_caps(a0, a1, a2, a3, a4), _caps(b0, b1, b2, b3, b4), _caps(c0, c1, c2, c3, c4)][:n]
    g = dbstate.QueryUnitGroup()
    want = Cap(0)
    for c in cs:
        g.append(_unit(c), serialize=False)
        want |= c
    cov.done('group')
    return g.capabilities == want


def refusal_names_missing(a0: bool, a1: bool, a2: bool, a3: bool, a4: bool,
                          b0: bool, b1: bool, b2: bool, b3: bool, b4: bool) -> bool:
    """When a statement's capabilities are not all allowed, make_error()
    names one that is used and not allowed."""
    used = _caps(a0, a1, a2, a3, a4)
    allowed = _caps(b0, b1, b2, b3, b4)
    if used & ~allowed == 0:
        cov.done('allowed')
        return True
    err = used.make_error(allowed, errors.DisabledCapabilityError, 'disabled')
    cov.done('refusal')
    msg = str(err.args[0])
    for item, title in enums.CAPABILITY_TITLES.items():
        if title in msg:
            return bool(used & item) and not (allowed & item)
    return False
