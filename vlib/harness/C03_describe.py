"""C03 - the DDL / SDL the system produces for a schema rebuilds that schema
(statement level: the text parser is not available in this sandbox).

ddl.ddl_text_from_schema / sdl_text_from_schema compute delta_schemas(None, S)
and print the statements of statements_from_delta(...).  Here the *statement
nodes* that get printed are taken (the text is their rendering by
edgeql.codegen), and applied to a database that contains only the std
stand-in, under several session module settings:

  DDL: every statement through ddl.delta_and_schema_from_ddl;
  SDL: the statements wrapped as the qlast.Schema document the SDL grammar
       builds (module blocks), through ddl.apply_sdl.

The result must be structurally equal to S and referentially intact,
whatever the session's default module and aliases are."""
import vlib.shims  # noqa: F401
from vlib import cov
from vlib import schema_kit as K
from vlib.concrete import untraced, concrete_index
from vlib.harness import C04_schema as C04

from edb.schema import ddl as s_ddl
from edb.edgeql import ast as qlast

SUBJECTS = ['file:edb/schema/ddl.py', 'file:edb/schema/delta.py', 'file:edb/schema/objects.py',
            'file:edb/schema/referencing.py', 'file:edb/schema/inheriting.py', 'file:edb/edgeql/declarative.py',
            'file:edb/edgeql/codegen.py']

NMIG = C04.NMIG
MIG_MENU = C04.MIG_MENU
RECIPES = tuple(C04.MIG_RECIPES)
NREC = len(RECIPES)
MENU_ALL = [i for i, (label, _f) in enumerate(C04.MENU) if 'union_of' not in label]
NALL = len(MENU_ALL)

# the replaying session: default module / aliases
SESSIONS = [
    {None: 'default'},
    {None: 'std'},
    {None: 'other'},                     # a module that does not exist in the target database
    {None: 'default', 'x': 'default', 'y': 'std'},           # extra aliases
    # not included: an alias whose *name* is a module name used in the text (e.g. default -> std).  Alias
    # look-up precedes module look-up by language definition (schema/utils.py resolve_name), so such a
    # session re-binds the very names the text is written in; no text could be immune to that.
]
NSESS = len(SESSIONS)
LAST = {}


def _statements(schema, sdlmode):
    """The statement nodes ddl_text_from_schema / sdl_text_from_schema print."""
    if sdlmode:
        diff = s_ddl.delta_schemas(schema_a=None, schema_b=schema, include_module_diff=True, include_std_diff=False,
                                   include_derived_types=False, linearize_delta=False)
    else:
        diff = s_ddl.delta_schemas(schema_a=None, schema_b=schema, include_module_diff=True, include_std_diff=False,
                                   include_derived_types=False)
    stmts = s_ddl.statements_from_delta(None, schema, diff, sdlmode=sdlmode)
    return [(text, node) for text, node, _cmd in stmts]


def _replay_ddl(stmts, aliases):
    cur = K.std_schema()
    for _text, node in stmts:
        cur, _ = s_ddl.delta_and_schema_from_ddl(node, schema=cur, modaliases=dict(aliases))
    return cur


def _replay_sdl(stmts, aliases):
    decls = []
    for _text, node in stmts:
        if isinstance(node, qlast.CreateModule):
            # `module default { ... }`: what the SDL grammar builds for a module block
            decls.append(qlast.ModuleDeclaration(name=qlast.ObjectRef(name=node.name.name, module=node.name.module),
                                                 declarations=list(node.commands)))
        else:
            decls.append(node)
    doc = qlast.Schema(declarations=decls)
    std = K.std_schema()
    schema, _warnings = s_ddl.apply_sdl(doc, base_schema=std, current_schema=std)
    return schema


NSEED = 3


def describe_rebuilds(recipe: int, k: int, c0: int, c1: int, sdl: bool, session: int, idseed: int = 0,
                      exclude_known: bool = True) -> bool:
    """idseed: which pseudo-random sequence the object ids are drawn from (the order in which
    DESCRIBE lists declarations follows the ids)."""
    recipe = concrete_index(recipe, NREC)
    k = concrete_index(k, 3)
    session = concrete_index(session, NSESS)
    idseed = concrete_index(idseed, NSEED)
    cs = [concrete_index(c, NALL) for c in (c0, c1)[:max(k, 0)]]
    if min([recipe, k, session, idseed] + cs) < 0:
        return True
    sdl = True if sdl else False
    exclude_known = True if exclude_known else False
    with untraced(heavy=True):
        return _describe(RECIPES[recipe], [MENU_ALL[c] for c in cs], sdl, session, idseed, exclude_known)


_ACC = {}


def accepted_first(recipe_idx):
    """Commands the recipe schema accepts (a rejected command is not part of the schema's history)."""
    if recipe_idx not in _ACC:
        acc = []
        s = C04.recipe_schema(RECIPES[recipe_idx], 0)
        st = K.id_state()
        for i, c in enumerate(MENU_ALL):
            K.reset_ids(0)
            try:
                C04.MENU[c][1](s)
                acc.append(i)
            except Exception:      # noqa: BLE001
                pass
        K.restore_ids(st)
        _ACC[recipe_idx] = acc
    return _ACC[recipe_idx]


def describe_after_accepted(recipe: int, i0: int, c1: int, sdl: bool, session: int, idseed: int) -> bool:
    """describe_rebuilds for two commands, the first being the i0-th command the recipe accepts."""
    recipe = concrete_index(recipe, NREC)
    if recipe < 0:
        return True
    with untraced(heavy=True):
        acc = accepted_first(recipe)
    i0 = concrete_index(i0, len(acc))
    if i0 < 0:
        return True
    return describe_rebuilds(recipe, 2, acc[i0], c1, sdl, session, idseed, True)


def overloaded_chain(schema) -> bool:
    """Witness class of known finding F18: an object type that re-declares (overloads) a link of one
    of its ancestors and itself has a descendant."""
    from edb.schema import objtypes as s_ot
    for t in schema.get_objects(type=s_ot.ObjectType):
        if not str(t.get_name(schema)).startswith('default::'):
            continue
        if not list(t.descendants(schema)):
            continue
        for ptr in t.get_pointers(schema).objects(schema):
            if not ptr.get_owned(schema):
                continue
            for base in ptr.get_bases(schema).objects(schema):
                src = base.get_source(schema)
                if src is not None and str(src.get_name(schema)).startswith('default::'):
                    return True
    return False


def f18_witness(args) -> bool:
    LAST.clear()
    a = list(args) + [0, True][len(args) - 6:] if len(args) < 8 else list(args)
    describe_rebuilds(*a[:7], False)
    return bool(LAST.get('F18'))


def _describe(recipe, cs, sdl, session, idseed=0, exclude_known=True) -> bool:
    K.reset_ids(idseed)
    s = C04.recipe_schema(recipe, idseed)
    labels = []
    for c in cs:
        try:
            s = C04.MENU[c][1](s)
            labels.append(C04.MENU[c][0])
        except Exception:       # noqa: BLE001  rejected command: not part of the schema's history
            cov.hit('rejected')
    cov.hit('step')
    try:
        stmts = _statements(s, sdl)
    except Exception as e:      # noqa: BLE001
        # the system cannot describe a schema it holds
        LAST.clear()
        LAST.update(schema='recipe %d + %s' % (recipe, labels), stage='describe', error=repr(e)[:300])
        cov.hit('describe failed')
        return False
    text = [t for t, _n in stmts]
    try:
        rebuilt = _replay_sdl(stmts, SESSIONS[session]) if sdl else _replay_ddl(stmts, SESSIONS[session])
    except Exception as e:      # noqa: BLE001
        if "'std::exclusive' does not exist" in str(e):
            # re-targeting an inherited link is printed as `set type ... using (...)`; compiling that cast
            # needs the real standard library: not decided
            cov.hit('needs the real std library')
            return True
        f18 = bool(sdl and 'cannot be cast automatically' in str(e) and overloaded_chain(s))
        LAST.clear()
        LAST.update(schema='recipe %d + %s' % (recipe, labels), stage='replay (%s)' % ('SDL' if sdl else 'DDL'),
                    session=repr(SESSIONS[session]), text=text, error=repr(e)[:300], F18=f18)
        cov.hit('replay refused')
        if f18:
            cov.hit('F18 pattern')
            return exclude_known
        return False
    va, vb = K.user_view(rebuilt), K.user_view(s)
    if va != vb or K.integrity_problems(rebuilt):
        LAST.clear()
        LAST.update(schema='recipe %d + %s' % (recipe, labels), stage='compare', session=repr(SESSIONS[session]),
                    text=text, differs=C04._diff(va, vb))
        return False
    cov.done('describe')
    return True


def describe_raw(recipe: int, k: int, c0: int, c1: int, sdl: bool, session: int, idseed: int = 0, exclude_known: bool = False):
    ok = describe_rebuilds(recipe, k, c0, c1, sdl, session, idseed, exclude_known)
    return {'ok': ok, **({} if ok else LAST)}
