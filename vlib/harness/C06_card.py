"""C06 - cardinality bounds algebra: the functions that combine cardinalities
are sound with respect to actual set sizes.

Concretisation: gamma(ONE)={1}, gamma(AT_MOST_ONE)={0,1},
gamma(AT_LEAST_ONE)=[1,inf), gamma(MANY)=[0,inf).  Set sizes n_i are
unbounded symbolic non-negative integers."""
import vlib.shims  # noqa: F401
from vlib import cov

from edb.edgeql import qltypes
from edb.edgeql.compiler.inference import cardinality as C
from edb.server.compiler import enums
from edb.ir import ast as irast

SUBJECTS = [
    'edb.edgeql.compiler.inference.cardinality.CardinalityBound',
    'edb.edgeql.compiler.inference.cardinality._card_to_bounds',
    'edb.edgeql.compiler.inference.cardinality._bounds_to_card',
    'edb.edgeql.compiler.inference.cardinality._card_unzip',
    'edb.edgeql.compiler.inference.cardinality.product',
    'edb.edgeql.compiler.inference.cardinality.cartesian_cardinality',
    'edb.edgeql.compiler.inference.cardinality._union_cardinality',
    'edb.edgeql.compiler.inference.cardinality.max_cardinality',
    'edb.edgeql.compiler.inference.cardinality.min_cardinality',
    'edb.edgeql.qltypes.Cardinality',
    'edb.server.compiler.enums.cardinality_from_ir_value',
]

Card = qltypes.Cardinality


def pick(i: int):
    if i == 0:
        return Card.ONE
    if i == 1:
        return Card.AT_MOST_ONE
    if i == 2:
        return Card.AT_LEAST_ONE
    return Card.MANY


def gamma(card, n) -> bool:
    """n is a possible size of a set of cardinality `card`."""
    if card is Card.ONE:
        return n == 1
    if card is Card.AT_MOST_ONE:
        return 0 <= n <= 1
    if card is Card.AT_LEAST_ONE:
        return n >= 1
    if card is Card.MANY:
        return n >= 0
    return False


def pick_bound(i: int):
    if i == 0:
        return C.CB_ZERO
    if i == 1:
        return C.CB_ONE
    return C.CB_MANY


def gamma_upper(b, n) -> bool:
    """n does not exceed the saturating upper bound b (MANY = no limit)."""
    if b is C.CB_ZERO:
        return n <= 0
    if b is C.CB_ONE:
        return n <= 1
    return b is C.CB_MANY


def gamma_lower(b, n) -> bool:
    if b is C.CB_ZERO:
        return n >= 0
    if b is C.CB_ONE:
        return n >= 1
    # a lower bound of MANY would promise >= 2 elements
    return b is C.CB_MANY and n >= 2


# --------------------------------------------------------------------------

def cartesian_sound(k: int, c0: int, c1: int, c2: int, n0: int, n1: int, n2: int) -> bool:
    cs = [pick(c0), pick(c1), pick(c2)][:k]
    ns = [n0, n1, n2][:k]
    for c, n in zip(cs, ns):
        if not gamma(c, n):
            cov.done('outside-gamma')
            return True
    r = C.cartesian_cardinality(cs)
    # |A x B x C| is the product of the sizes; decide membership without
    # symbolic-by-symbolic multiplication: the product is 0 iff some factor is
    # 0, is 1 iff all factors are 1, and is >= 1 iff all factors are >= 1.
    any_zero = False
    all_one = True
    for n in ns:
        if n == 0:
            any_zero = True
        if n != 1:
            all_one = False
    cov.done('cartesian')
    if r is Card.ONE:
        return all_one
    if r is Card.AT_MOST_ONE:
        return any_zero or all_one
    if r is Card.AT_LEAST_ONE:
        return not any_zero
    return r is Card.MANY


def union_sound(k: int, c0: int, c1: int, c2: int, n0: int, n1: int, n2: int) -> bool:
    cs = [pick(c0), pick(c1), pick(c2)][:k]
    ns = [n0, n1, n2][:k]
    for c, n in zip(cs, ns):
        if not gamma(c, n):
            cov.done('outside-gamma')
            return True
    r = C._union_cardinality(cs)
    total = 0
    for n in ns:
        total = total + n
    cov.done('union')
    return gamma(r, total)


def bounds_roundtrip(c: int, n: int) -> bool:
    card = pick(c)
    lo, up = C._card_to_bounds(card)
    back = C._bounds_to_card(lo, up)
    cov.done('roundtrip')
    # same concretisation, and the bounds themselves describe gamma(card)
    return (gamma(back, n) == gamma(card, n)
            and (gamma(card, n) == (n >= 0 and gamma_lower(lo, n) and gamma_upper(up, n))))


def bound_add_sound(a: int, b: int, x: int, y: int) -> bool:
    """Saturating + on upper bounds over-approximates, on lower bounds
    under-approximates, integer addition."""
    A, B = pick_bound(a), pick_bound(b)
    s = A + B
    ok = True
    if gamma_upper(A, x) and gamma_upper(B, y) and x >= 0 and y >= 0:
        ok = ok and gamma_upper(s, x + y)
    if A is not C.CB_MANY and B is not C.CB_MANY and gamma_lower(A, x) and gamma_lower(B, y):
        # lower bounds are only ever ZERO/ONE at the call sites
        ok = ok and (x + y >= min(int(s), 1))
    cov.done('add')
    return ok and isinstance(s, C.CardinalityBound)


def bound_mul_sound(a: int, b: int, x: int, y: int) -> bool:
    A, B = pick_bound(a), pick_bound(b)
    s = A * B
    ok = isinstance(s, C.CardinalityBound)
    if x >= 0 and y >= 0 and gamma_upper(A, x) and gamma_upper(B, y):
        if s is C.CB_ZERO:
            ok = ok and (x == 0 or y == 0)
        elif s is C.CB_ONE:
            ok = ok and (x <= 1 and y <= 1)
    if A is not C.CB_MANY and B is not C.CB_MANY and gamma_lower(A, x) and gamma_lower(B, y):
        if int(s) >= 1:
            ok = ok and x >= 1 and y >= 1
    cov.done('mul')
    return ok


def predicates_agree(c: int, n: int) -> bool:
    card = pick(c)
    ok = True
    if gamma(card, n):
        if n == 0:
            ok = ok and card.can_be_zero()
        if n >= 2:
            ok = ok and card.is_multi() and not card.is_single()
    # exactness (the predicates are not more permissive than gamma)
    ok = ok and (card.can_be_zero() == gamma(card, 0))
    ok = ok and (card.is_multi() == gamma(card, 2))
    ok = ok and (card.is_single() == (not gamma(card, 2)))
    req, sc = card.to_schema_value()
    ok = ok and (req == (not gamma(card, 0)))
    ok = ok and ((sc is qltypes.SchemaCardinality.Many) == gamma(card, 2))
    ok = ok and Card.from_schema_value(req, sc) is card
    cov.done('pred')
    return ok


def wire_enum_same_gamma(c: int, n: int) -> bool:
    card = pick(c)
    w = enums.cardinality_from_ir_value(card)
    cov.done('wire')
    # the protocol enum value names the same interval
    if w is enums.Cardinality.ONE:
        g = (n == 1)
    elif w is enums.Cardinality.AT_MOST_ONE:
        g = (0 <= n <= 1)
    elif w is enums.Cardinality.AT_LEAST_ONE:
        g = (n >= 1)
    elif w is enums.Cardinality.MANY:
        g = (n >= 0)
    else:
        return False
    return g == gamma(card, n)


def coalesce_sound(c0: int, c1: int, n0: int, n1: int) -> bool:
    """`A ?? B` evaluates to A when A is non-empty and to B otherwise; the
    compiler reports max_cardinality((card A, card B)) for it."""
    ca, cb = pick(c0), pick(c1)
    if not (gamma(ca, n0) and gamma(cb, n1)):
        cov.done('outside-gamma')
        return True
    r = C.max_cardinality((ca, cb))
    n = n0 if n0 > 0 else n1
    cov.done('coalesce')
    return gamma(r, n)
