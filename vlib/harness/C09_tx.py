"""C09 - compiler session state follows transaction / savepoint semantics.

Subject: edb.server.compiler.dbstate.{Transaction, CompilerConnectionState}
and the compile layer that turns transaction / session statements into query
units (compiler._compile_dispatch_ql, _compile_ql_transaction,
_compile_ql_sess_state, _make_query_unit), driven with hand-built qlast nodes.

Oracle: a PostgreSQL-style transaction model (class Model below) over opaque
state tokens (module aliases, session config, user schema).
"""
import types
import uuid

import immutables

import vlib.shims  # noqa: F401
from vlib import cov
from vlib.concrete import untraced, concrete_index, concrete_bool

from edb import errors
from edb.edgeql import ast as qlast
from edb.ir import statypes
from edb.schema import schema as s_schema
from edb.schema import modules as s_mod
from edb.schema import name as sn
from edb.schema import version as s_ver
from edb.server import config, defines
from edb.server.compiler import compiler as C
from edb.server.compiler import dbstate, enums

SUBJECTS = [
    'edb.server.compiler.dbstate.Transaction',
    'edb.server.compiler.dbstate.CompilerConnectionState',
    'edb.server.compiler.dbstate.TransactionState',
    'edb.server.compiler.compiler._compile_ql_transaction',
    'edb.server.compiler.compiler._compile_ql_sess_state',
    'edb.server.compiler.compiler._compile_dispatch_ql',
    'edb.server.compiler.compiler._make_query_unit',
    'edb.server.compiler.compiler.Compiler.compile_in_tx',
    'edb.server.compiler.compiler.Compiler._try_compile_rollback',
]

EMPTY = immutables.Map()


class _Clock:
    """Stub for dbstate.time: the transaction-id counter starts from a
    harness-chosen (symbolic) integer instead of the wall clock."""
    now = 1000

    @classmethod
    def monotonic_ns(cls):
        return cls.now

    @classmethod
    def monotonic(cls):
        return 1.0


dbstate.time = _Clock

STD = s_schema.FlatSchema()
GLOBAL = s_schema.FlatSchema()


def _mk_user_schema():
    sch = s_schema.FlatSchema()
    for m in ('default', 'm1', 'm2'):
        sch, _ = s_mod.Module.create_in_schema(sch, name=sn.UnqualName(m))
    # COMMIT of a transaction with DDL reports the schema version
    sch, _ = s_ver.SchemaVersion.create_in_schema(
        sch, name=sn.UnqualName('__schema_version__'), version=uuid.UUID(int=7), internal=True)
    return sch


ROOT = _mk_user_schema()


def _build_pool():
    """Distinct user-schema versions a "DDL statement" can move to."""
    out = []
    sch = ROOT
    for i in range(12):
        sch, _ = s_mod.Module.create_in_schema(sch, name=sn.UnqualName('ddl%d' % i))
        out.append(sch)
    return out


_SCHEMA_POOL = _build_pool()

SPEC = config.FlatSpec(
    config.Setting('default_transaction_isolation', type=statypes.TransactionIsolation,
                   default=statypes.TransactionIsolation('Serializable')),
    config.Setting('default_transaction_access_mode', type=statypes.TransactionAccessMode,
                   default=statypes.TransactionAccessMode('ReadWrite')),
)
CSTATE = types.SimpleNamespace(std_schema=STD, config_spec=SPEC)

ALIASES0 = immutables.Map({None: 'default'})


def name_of(i: int) -> str:
    if i == 0:
        return 'a'
    if i == 1:
        return 'b'
    if i == 2:
        return 'c'
    return 'd'


def new_state(t0: int):
    _Clock.now = t0
    return dbstate.CompilerConnectionState(
        user_schema=ROOT, global_schema=GLOBAL, modaliases=ALIASES0,
        session_config=EMPTY, database_config=EMPTY, system_config=EMPTY,
        cached_reflection=EMPTY)


# ---------------------------------------------------------------------------
# Reference model (PostgreSQL transaction block with savepoints)

class Snap:
    """What a statement is compiled against: aliases, session config, schema."""
    __slots__ = ('aliases', 'config', 'schema')

    def __init__(self, aliases, cfg, schema):
        self.aliases, self.config, self.schema = aliases, cfg, schema

    def same(self, other) -> bool:
        return (self.aliases == other.aliases and self.config is other.config
                and self.schema is other.schema)


class Model:
    def __init__(self):
        self.in_block = False
        self.base = Snap(ALIASES0, EMPTY, ROOT)
        self.cur = self.base
        self.sps = []           # [(name, Snap)]

    def find(self, name):
        for i in range(len(self.sps) - 1, -1, -1):
            if self.sps[i][0] == name:
                return i
        return -1


def alpha(cs) -> Snap:
    tx = cs.current_tx()
    return Snap(tx.get_modaliases(), tx.get_session_config(), tx.get_user_schema())


def alpha_sps(cs):
    return [(sp.name, Snap(sp.modaliases, sp.session_config, sp.user_schema))
            for sp in cs.current_tx()._savepoints.values()]


def agree(cs, m: Model) -> bool:
    """Abstraction of the real state equals the model state."""
    tx = cs.current_tx()
    if tx.is_implicit() == m.in_block:
        return False
    if not alpha(cs).same(m.cur):
        return False
    s0 = tx._state0
    if not Snap(s0.modaliases, s0.session_config, s0.user_schema).same(m.base):
        return False
    real = alpha_sps(cs)
    if len(real) != len(m.sps):
        return False
    for (rn, rs), (mn, ms) in zip(real, m.sps):
        if rn != mn or not rs.same(ms):
            return False
    return True


# ---------------------------------------------------------------------------
# Part A: the state classes, one API call at a time

# op codes
START, COMMIT, ROLLBACK, SAVEPOINT, RELEASE, ROLLBACK_TO, SET_ALIAS, SET_CONFIG, DDL = range(9)
CONFIGS = [immutables.Map({'k': i}) for i in range(12)]


def api_step(cs, m: Model, op: int, ni: int, serial: int) -> bool:
    """Apply one operation to the real state and to the model; False on any
    disagreement (outcome accept/reject, or resulting state)."""
    tx = cs.current_tx()
    name = name_of(ni)
    cov.hit('step')
    try:
        if op == START:
            cs.start_tx()
            ok = not m.in_block
            m.in_block = True
            # a block opened after implicit statements starts from the current state
            m.base = m.cur
        elif op == COMMIT:
            st = cs.commit_tx()
            ok = m.in_block
            if not Snap(st.modaliases, st.session_config, st.user_schema).same(m.cur):
                return False
            m.in_block = False
            m.base = m.cur
            m.sps = []
        elif op == ROLLBACK:
            st = cs.rollback_tx()
            ok = True
            if not Snap(st.modaliases, st.session_config, st.user_schema).same(m.base):
                return False
            m.in_block = False
            m.cur = m.base
            m.sps = []
        elif op == SAVEPOINT:
            tx.declare_savepoint(name)
            ok = m.in_block
            m.sps = m.sps + [(name, m.cur)]
        elif op == RELEASE:
            tx.release_savepoint(name)
            i = m.find(name)
            ok = m.in_block and i >= 0
            m.sps = m.sps[:i]
        elif op == ROLLBACK_TO:
            st = tx.rollback_to_savepoint(name)
            i = m.find(name)
            ok = m.in_block and i >= 0
            if ok:
                m.cur = m.sps[i][1]
                m.sps = m.sps[:i + 1]
                if not Snap(st.modaliases, st.session_config, st.user_schema).same(m.cur):
                    return False
        elif op == SET_ALIAS:
            al = tx.get_modaliases().set('x', 'm%d' % (1 + serial % 2)).set('s', str(serial))
            tx.update_modaliases(al)
            ok = True
            m.cur = Snap(al, m.cur.config, m.cur.schema)
        elif op == SET_CONFIG:
            tx.update_session_config(CONFIGS[serial])
            ok = True
            m.cur = Snap(m.cur.aliases, CONFIGS[serial], m.cur.schema)
        else:
            sch = _SCHEMA_POOL[serial]
            tx.update_schema(s_schema.ChainedSchema(STD, sch, GLOBAL))
            ok = True
            m.cur = Snap(m.cur.aliases, m.cur.config, sch)
    except errors.TransactionError:
        # rejected: the model must reject as well, and nothing may have changed
        if op == START:
            return m.in_block and agree(cs, m)
        if op == COMMIT:
            return (not m.in_block) and agree(cs, m)
        if op == SAVEPOINT:
            return (not m.in_block) and agree(cs, m)
        if op == RELEASE or op == ROLLBACK_TO:
            return ((not m.in_block) or m.find(name) < 0) and agree(cs, m)
        return False
    if not ok:
        return False
    return agree(cs, m)


def api_sequence(t0: int, k: int, o0: int, n0: int, o1: int, n1: int, o2: int, n2: int,
                 o3: int, n3: int, o4: int, n4: int) -> bool:
    """k operations from a fresh connection state."""
    # choices -> concrete values (forks), then native execution
    k = concrete_index(k, 6)
    ops = []
    for o, n in ((o0, n0), (o1, n1), (o2, n2), (o3, n3), (o4, n4)):
        if len(ops) >= k:
            break
        oc = concrete_index(o, 9)
        # the name only matters for savepoint statements
        nc = concrete_index(n, 4) if oc in (SAVEPOINT, RELEASE, ROLLBACK_TO) else 0
        ops.append((oc, nc))
    for o, n in ops:
        if o < 0 or n < 0:
            return True          # outside the stated bound
    with untraced():
        return _api_sequence(t0, k, ops)


def _api_sequence(t0, k, ops) -> bool:
    cs = new_state(t0)
    m = Model()
    for i in range(5):
        if i >= k:
            break
        op, ni = ops[i]
        if op >= SET_ALIAS and not m.in_block:
            # Outside a block the server compiles every statement against a
            # fresh CompilerConnectionState, so "change, then START on the
            # same object" is not a reachable history: out of scope.
            return True
        if not api_step(cs, m, op, ni, i):
            return False
    cov.done('api_sequence')
    return True


# ---------------------------------------------------------------------------
# Part B: statements compiled by the real compile layer inside one
# transaction block, with the server side of the protocol transcribed from
# edb/server/dbview/dbview.pyx + protocol/{binary,execute}.pyx (Cython, cannot
# run here) and compile-time rejections / backend failures placed by the
# harness.

from edb.pgsql import params as _pg_params
# computed once, outside tracing: the dataclass default factory reads build
# metadata from disk on every call (CrossHair bypasses functools caches)
_RUNTIME_PARAMS = _pg_params.get_default_runtime_params()


def _ctx(state, expect_rollback: bool):
    return C.CompileContext(
        backend_runtime_params=_RUNTIME_PARAMS,
        compiler_state=CSTATE, state=state, output_format=enums.OutputFormat.BINARY,
        expected_cardinality_one=False, protocol_version=defines.CURRENT_PROTOCOL,
        expect_rollback=expect_rollback)


def _stmt(op: int, ni: int, serial: int):
    name = name_of(ni)
    if op == START:
        return qlast.StartTransaction()
    if op == COMMIT:
        return qlast.CommitTransaction()
    if op == ROLLBACK:
        return qlast.RollbackTransaction()
    if op == SAVEPOINT:
        return qlast.DeclareSavepoint(name=name)
    if op == RELEASE:
        return qlast.ReleaseSavepoint(name=name)
    if op == ROLLBACK_TO:
        return qlast.RollbackToSavepoint(name=name)
    if op == SET_ALIAS:
        if serial % 3 == 2:
            return qlast.SessionResetAllAliases()
        return qlast.SessionSetAliasDecl(
            decl=qlast.ModuleAliasDecl(module='m%d' % (1 + serial % 2), alias=('x' if serial % 2 else None)))
    return None


class Unit:
    """The fields of a QueryUnit the server's transaction bookkeeping reads."""
    def __init__(self, **kw):
        self.tx_id = None
        self.tx_commit = self.tx_rollback = False
        self.tx_savepoint_rollback = self.tx_savepoint_declare = False
        self.sp_name = self.sp_id = None
        self.modaliases = None
        self.session_config = None          # emulated CONFIGURE SESSION
        self.__dict__.update(kw)


class ServerView:
    """dbview.DatabaseConnectionView, transaction bookkeeping only."""
    def __init__(self):
        self.txid = None
        self.in_tx = False
        self.tx_error = False
        self.savepoints = []       # (name, spid, (modaliases, config))
        self.modaliases = ALIASES0
        self.config = EMPTY
        self.in_tx_modaliases = None
        self.in_tx_config = None
        self.last_state = None     # CompilerConnectionState kept by the worker (REUSE_LAST_STATE)

    def get_modaliases(self):
        return self.in_tx_modaliases if self.in_tx else self.modaliases

    def get_config(self):
        return self.in_tx_config if self.in_tx else self.config

    def set_modaliases(self, v):
        if self.in_tx:
            self.in_tx_modaliases = v
        else:
            self.modaliases = v

    def set_config(self, v):
        if self.in_tx:
            self.in_tx_config = v
        else:
            self.config = v

    def reset_tx(self):
        self.txid = None
        self.in_tx = False
        self.in_tx_modaliases = self.in_tx_config = None
        self.savepoints = []
        self.tx_error = False

    # execute.execute(): dbv.start(unit)
    def start(self, unit):
        if unit.tx_id is not None:
            self.txid = unit.tx_id
            self.in_tx = True
            self.in_tx_modaliases = self.modaliases
            self.in_tx_config = self.config

    def rollback_to_savepoint(self, name):
        self.tx_error = False
        while self.savepoints:
            if self.savepoints[-1][0] == name:
                break
            self.savepoints.pop()
        else:
            raise RuntimeError('savepoint not found')
        _, spid, (al, cfg) = self.savepoints[-1]
        self.txid = spid
        self.set_modaliases(al)
        self.set_config(cfg)

    def on_success(self, unit):
        if unit.tx_savepoint_rollback:
            self.rollback_to_savepoint(unit.sp_name)
        if unit.tx_savepoint_declare:
            self.savepoints.append((unit.sp_name, unit.sp_id, (self.get_modaliases(), self.get_config())))
        if unit.modaliases is not None:
            self.set_modaliases(unit.modaliases)
        if getattr(unit, 'session_config', None) is not None:
            self.set_config(unit.session_config)
        if unit.tx_commit:
            self.config = self.in_tx_config
            self.modaliases = self.in_tx_modaliases
            self.reset_tx()
        elif unit.tx_rollback:
            self.reset_tx()


class _Request:
    """Duck-typed rpc.CompilationRequest (the rpc module is a compiled extension): the attributes
    Compiler.compile_in_tx reads."""
    input_language = enums.InputLanguage.EDGEQL
    output_format = enums.OutputFormat.BINARY
    input_format = enums.InputFormat.BINARY
    expect_one = False
    implicit_limit = 0
    inline_typeids = False
    inline_typenames = False
    inline_objectids = False
    protocol_version = defines.CURRENT_PROTOCOL

    def __init__(self, stmt, modaliases, session_config):
        self.source = [stmt]
        self.modaliases = modaliases
        self.session_config = session_config

    def get_cache_key(self):
        return None


def _real_compile_in_tx_preamble(state, txid, expect_rollback, modaliases, session_config, stmt):
    """Runs the real Compiler.compile_in_tx with the module-level compile() replaced (for the duration
    of the call) by a function that records the CompileContext, and edgeql.parse_block by one that returns
    the hand-built statement (no parser).  Returns ('ctx', state, expect_rollback) when compile_in_tx
    reached compile(), ('fastpath', unit_group, state) when it answered through _try_compile_rollback."""
    seen = []

    def fake_compile(*, ctx, source):
        seen.append(ctx)
        return None

    def fake_parse_block(source):
        return list(source)

    comp = C.Compiler(CSTATE)
    req = _Request(stmt, modaliases, session_config)
    real_compile, real_parse = C.compile, C.edgeql.parse_block
    C.compile, C.edgeql.parse_block = fake_compile, fake_parse_block
    try:
        group, st2 = comp.compile_in_tx(state=state, txid=txid, request=req, expect_rollback=expect_rollback)
    finally:
        C.compile, C.edgeql.parse_block = real_compile, real_parse
    if seen:
        return ('ctx', seen[0].state, seen[0].expect_rollback)
    return ('fastpath', group, st2)


def compile_stmt(srv: ServerView, op: int, ni: int, serial: int):
    """Compiler.compile() / compile_in_tx() for one statement; returns
    (unit, snapshot-compiled-against) or raises the compile error."""
    if not srv.in_tx:
        state = dbstate.CompilerConnectionState(
            user_schema=ROOT, global_schema=GLOBAL, modaliases=srv.modaliases,
            session_config=srv.config, database_config=EMPTY, system_config=EMPTY,
            cached_reflection=EMPTY)
        expect_rollback = False
    else:
        state = srv.last_state
        expect_rollback = srv.tx_error
        # --- the real Compiler.compile_in_tx up to the point where it hands over to compile() ---
        lost = (expect_rollback and state.current_tx().id != srv.txid
                and not state.can_sync_to_savepoint(srv.txid))
        try:
            captured = _real_compile_in_tx_preamble(
                state, srv.txid, expect_rollback, srv.get_modaliases(), srv.get_config(),
                _stmt(op, ni, serial) if op not in (SET_CONFIG, DDL)
                else qlast.SelectQuery(result=qlast.Constant.integer(1)))
        except errors.TransactionError:
            if lost:
                raise AssertionError('compiler cannot locate the server transaction id')
            raise
        if captured[0] == 'fastpath':
            if lost:
                raise AssertionError('compiler cannot locate the server transaction id')
            # the state-less ROLLBACK fast path was taken although the compiler still tracks the
            # transaction: the unit is what the real code returned, the state is left as it was
            group, st2 = captured[1], captured[2]
            return group[0], alpha(st2), st2
        state = captured[1]
        expect_rollback = captured[2]
    against = alpha(state)
    ctx = _ctx(state, expect_rollback)
    if op == SET_CONFIG or op == DDL:
        # stand-ins for CONFIGURE SESSION / DDL (their compilation needs the
        # std schema): the state-mutating call their compilation ends in
        if expect_rollback:
            raise errors.TransactionError('expected a ROLLBACK or ROLLBACK TO SAVEPOINT command')
        tx = state.current_tx()
        if op == SET_CONFIG:
            tx.update_session_config(CONFIGS[serial])
            unit = Unit(session_config=CONFIGS[serial])
        else:
            tx.update_schema(s_schema.ChainedSchema(STD, _SCHEMA_POOL[serial], GLOBAL))
            unit = Unit()
    else:
        stmt = _stmt(op, ni, serial)
        comp, caps = C._compile_dispatch_ql(ctx, stmt)
        unit, _ = C._make_query_unit(ctx=ctx, stmt_ctx=ctx, stmt=stmt, is_script=False,
                                     is_trailing_stmt=True, comp=comp, capabilities=caps)
        if not (unit.capabilities & enums.Capability.TRANSACTION) and op <= ROLLBACK_TO:
            raise AssertionError('transaction statement without TRANSACTION capability')
        if not (unit.capabilities & enums.Capability.SESSION_CONFIG) and op == SET_ALIAS:
            raise AssertionError('session statement without SESSION_CONFIG capability')
    srv_state_after = state
    return unit, against, srv_state_after


def expand(d: int, pn0: int, pc0: int, pn1: int, pc1: int, pn2: int, pc2: int,
           k: int, suffix):
    """Statement list of a history: START; a *recipe prefix* of d savepoints
    (names pn_i), each optionally preceded by a state change pc_i (0 none,
    1 alias, 2 session config, 3 DDL); then k free statements."""
    steps = [(START, 0, False)]
    pre = [(pn0, pc0), (pn1, pc1), (pn2, pc2)]
    for i in range(3):
        if i >= d:
            break
        pn, pc = pre[i]
        if pc == 1:
            steps.append((SET_ALIAS, 0, False))
        elif pc == 2:
            steps.append((SET_CONFIG, 0, False))
        elif pc == 3:
            steps.append((DDL, 0, False))
        steps.append((SAVEPOINT, pn, False))
    for i in range(4):
        if i >= k:
            break
        steps.append(suffix[i])
    return steps


def dup_release_rollback(steps) -> bool:
    """Witness predicate of known finding F11: ROLLBACK TO SAVEPOINT x while a
    *later* savepoint that was also named x has been destroyed by a RELEASE
    (of itself or of an older savepoint).  The server keeps released
    savepoints in its list and finds the stale one first.
    Statements that are refused do not count: in a failed transaction (after
    START inside the block, a RELEASE / ROLLBACK TO of an unknown name, or a
    DDL / CONFIGURE that fails in the backend) only ROLLBACK and ROLLBACK TO an
    existing savepoint are executed."""
    stack = []          # live savepoints: (name, position)
    released = []       # destroyed by RELEASE: (name, position)
    failed = False
    for pos in range(len(steps)):
        op, ni = steps[pos][0], steps[pos][1]
        fault = steps[pos][2] if len(steps[pos]) > 2 else False
        live = [n for n, _p in stack]
        if failed and not (op == ROLLBACK or (op == ROLLBACK_TO and ni in live)):
            continue                     # refused: nothing happens
        if op == START:
            if pos > 0:
                failed = True            # START inside the block is an error
            continue
        if op == SAVEPOINT:
            stack.append((ni, pos))
        elif op == RELEASE or op == ROLLBACK_TO:
            idx = -1
            for q in range(len(stack) - 1, -1, -1):
                if stack[q][0] == ni:
                    idx = q
                    break
            if idx < 0:
                failed = True
                continue
            if op == RELEASE:
                released.extend(stack[idx:])
                del stack[idx:]
            else:
                for rn, rpos in released:
                    if rn == ni and rpos > stack[idx][1]:
                        return True
                del stack[idx + 1:]
                failed = False
        elif op == SET_CONFIG or op == DDL:
            if fault:
                failed = True
        elif op == COMMIT or op == ROLLBACK:
            break
    return False


def script_f11(t0, d, pn0, pc0, pn1, pc1, pn2, pc2, k, o0, n0, f0, o1, n1, f1, o2, n2, f2, o3, n3, f3) -> bool:
    return dup_release_rollback(expand(d, pn0, pc0, pn1, pc1, pn2, pc2, k,
                                       [(o0, n0, f0), (o1, n1, f1), (o2, n2, f2), (o3, n3, f3)]))


def script(t0: int, d: int, pn0: int, pc0: int, pn1: int, pc1: int, pn2: int, pc2: int,
           k: int, o0: int, n0: int, f0: bool, o1: int, n1: int, f1: bool,
           o2: int, n2: int, f2: bool, o3: int, n3: int, f3: bool) -> bool:
    """One transaction block: START, recipe prefix, k free statements; f_i
    places a backend failure on free statement i (only DDL / CONFIGURE can
    fail in the backend)."""
    steps = _concrete_steps(d, pn0, pc0, pn1, pc1, pn2, pc2, k,
                            [(o0, n0, f0), (o1, n1, f1), (o2, n2, f2), (o3, n3, f3)])
    if steps is None:
        return True              # outside the stated bound
    with untraced():
        if run_steps(t0, steps):
            return True
        # Known finding F11 (see /verif/known_findings.json) is excluded here;
        # `script_raw` is the un-narrowed obligation.
        return dup_release_rollback(steps)


def script_positioned(t0: int, pn0: int, pc0: int, pn1: int, pc1: int, k: int,
                      o0: int, n0: int, f0: bool, o1: int, n1: int, f1: bool) -> bool:
    """A transaction whose backend has been *positioned* on savepoints: START; [change pc0]; SAVEPOINT a;
    ROLLBACK TO a; change pc1 (compiled while the server sits on a: the compiler syncs to a); SAVEPOINT b;
    ROLLBACK TO b; then k <= 2 free statements (the first one is compiled while the server sits on b).
    Returning to an earlier savepoint after the compiler has synchronised to a later one exercises the pruning
    of the savepoint log in sync_to_savepoint."""
    pn0, pc0 = concrete_index(pn0, 4), concrete_index(pc0, 4)
    pn1, pc1 = concrete_index(pn1, 4), concrete_index(pc1, 4)
    k = concrete_index(k, 3)
    if min(pn0, pc0, pn1, pc1, k) < 0 or pc1 == 0:
        return True
    suf = []
    for o, n, f in ((o0, n0, f0), (o1, n1, f1)):
        if len(suf) >= k:
            break
        a = concrete_index(o, 9)
        b = concrete_index(n, 4) if a in (SAVEPOINT, RELEASE, ROLLBACK_TO) else 0
        if a < 0 or b < 0:
            return True
        fault = concrete_bool(f) if a in (SET_CONFIG, DDL) else False
        suf.append((a, b, fault))
    change = {1: SET_ALIAS, 2: SET_CONFIG, 3: DDL}
    steps = [(START, 0, False)]
    if pc0:
        steps.append((change[pc0], 0, False))
    steps += [(SAVEPOINT, pn0, False), (ROLLBACK_TO, pn0, False), (change[pc1], 0, False),
              (SAVEPOINT, pn1, False), (ROLLBACK_TO, pn1, False)] + suf
    with untraced():
        if run_steps(t0, steps):
            return True
        return dup_release_rollback(steps)


def script_raw(t0: int, d: int, pn0: int, pc0: int, pn1: int, pc1: int, pn2: int, pc2: int,
               k: int, o0: int, n0: int, f0: bool, o1: int, n1: int, f1: bool,
               o2: int, n2: int, f2: bool, o3: int, n3: int, f3: bool) -> bool:
    steps = _concrete_steps(d, pn0, pc0, pn1, pc1, pn2, pc2, k,
                            [(o0, n0, f0), (o1, n1, f1), (o2, n2, f2), (o3, n3, f3)])
    if steps is None:
        return True
    with untraced():
        return run_steps(t0, steps)


def _concrete_steps(d, pn0, pc0, pn1, pc1, pn2, pc2, k, suffix):
    """Make every choice concrete (chains of forks): the history is then a
    concrete statement list which runs natively."""
    d = concrete_index(d, 4)
    k = concrete_index(k, 5)
    if d < 0 or k < 0:
        return None
    pre = []
    for pn, pc in ((pn0, pc0), (pn1, pc1), (pn2, pc2)):
        if len(pre) >= d:
            pre.append((0, 0))
            continue
        a, b = concrete_index(pn, 4), concrete_index(pc, 4)
        if a < 0 or b < 0:
            return None
        pre.append((a, b))
    suf = []
    for o, n, f in suffix:
        if len(suf) >= k:
            suf.append((0, 0, False))
            continue
        a = concrete_index(o, 9)
        b = concrete_index(n, 4) if a in (SAVEPOINT, RELEASE, ROLLBACK_TO) else 0
        if a < 0 or b < 0:
            return None
        fault = concrete_bool(f) if a in (SET_CONFIG, DDL) else False
        suf.append((a, b, fault))
    return expand(d, pre[0][0], pre[0][1], pre[1][0], pre[1][1], pre[2][0], pre[2][1], k, suf)


def run_steps(t0: int, steps) -> bool:
    _Clock.now = t0
    srv = ServerView()
    m = Model()
    failed = False          # the transaction is in the error state
    k = len(steps) - 1
    for i in range(len(steps)):
        op, ni, fault = steps[i]
        name = name_of(ni)
        cov.hit('step')
        if not srv.in_tx and i > 0:
            break               # block ended: later statements get fresh states
        # ---- what the model says about this statement -----------------------
        if failed:
            accept = op == ROLLBACK or (op == ROLLBACK_TO and m.find(name) >= 0)
        elif op == START:
            accept = not m.in_block
        elif op == COMMIT:
            accept = m.in_block
        elif op == SAVEPOINT:
            accept = m.in_block
        elif op == RELEASE or op == ROLLBACK_TO:
            accept = m.in_block and m.find(name) >= 0
        else:
            accept = True
        # ---- compile ---------------------------------------------------------
        try:
            unit, against, state = compile_stmt(srv, op, ni, i)
            compiled = True
        except (errors.TransactionError, errors.QueryError):
            compiled = False
        if compiled:
            srv.last_state = state       # dbview._compile(): kept even if the unit is then refused
        # dbview._check_in_tx_error(): in a failed transaction only rollbacks pass
        served = compiled and (not srv.tx_error or unit.tx_rollback or unit.tx_savepoint_rollback)
        if served != accept:
            return False
        if not served:
            if srv.in_tx:
                srv.tx_error = True      # binary.pyx main loop: dbview.tx_error()
                failed = True
            continue
        if not failed and not against.same(m.cur):
            return False                 # compiled against the wrong state
        # ---- execute ---------------------------------------------------------
        if (op == SET_CONFIG or op == DDL) and m.in_block and fault:
            srv.tx_error = True          # execute(): dbv.on_error()
            failed = True
            continue
        srv.start(unit)
        srv.on_success(unit)
        # ---- model step ------------------------------------------------------
        if op == START:
            m.in_block = True
            m.base = m.cur
            if unit.tx_id is None or unit.tx_id != state.current_tx().id:
                return False
        elif op == COMMIT:
            m.in_block = False
            m.base = m.cur
            m.sps = []
            if not unit.tx_commit:
                return False
        elif op == ROLLBACK:
            m.in_block = False
            m.cur = m.base
            m.sps = []
            failed = False
            if not unit.tx_rollback:
                return False
        elif op == SAVEPOINT:
            m.sps = m.sps + [(name, m.cur)]
            if not (unit.tx_savepoint_declare and unit.sp_name == name and unit.sp_id is not None):
                return False
        elif op == RELEASE:
            m.sps = m.sps[:m.find(name)]
        elif op == ROLLBACK_TO:
            j = m.find(name)
            m.cur = m.sps[j][1]
            m.sps = m.sps[:j + 1]
            failed = False
            if not (unit.tx_savepoint_rollback and unit.sp_name == name):
                return False
        elif op == SET_ALIAS:
            if unit.modaliases is None:
                return False
            m.cur = Snap(unit.modaliases, m.cur.config, m.cur.schema)
            st = _stmt(op, ni, i)
            if isinstance(st, qlast.SessionSetAliasDecl):
                if unit.modaliases.get(st.decl.alias) != st.decl.module:
                    return False
            elif unit.modaliases != C.DEFAULT_MODULE_ALIASES_MAP:
                return False
        elif op == SET_CONFIG:
            m.cur = Snap(m.cur.aliases, CONFIGS[i], m.cur.schema)
        else:
            m.cur = Snap(m.cur.aliases, m.cur.config, _SCHEMA_POOL[i])
        # ---- compare ---------------------------------------------------------
        if srv.in_tx != m.in_block:
            return False
        if srv.in_tx:
            if not agree(state, m):
                return False
            # what the *server* now holds is what the next statement will be
            # compiled against after the session-difference step
            if srv.get_modaliases() != m.cur.aliases or srv.get_config() is not m.cur.config:
                return False
        else:
            # after COMMIT / ROLLBACK the committed view is the model's base
            if srv.modaliases != m.base.aliases or srv.config is not m.base.config:
                return False
            if op == COMMIT:
                sch = state.current_tx().get_user_schema()
                if sch is not m.base.schema:
                    return False
    cov.done('script')
    return True
