"""C07 - access policies guard every read path.

Subject: the real EdgeQL compiler (edgeql/compiler/policies.py, setgen.new_set,
stmtctx) and SQL compiler (pgsql/compiler/relctx.range_for_material_objtype ...)
on hand-built read-only queries (vlib/harness/Q_family.py) over the
Person / Admin / Post schema with access policies created through the real DDL
path (qlast.CreateAccessPolicy nodes).

Every policy condition compares a property with a unique marker string.  In
the emitted SQL tree a read of the storage (table) of a protected type - the
policy's subject type or one of its descendants - must be *guarded*: on the
way from the table reference up to the statement root there is a SELECT whose
WHERE clause contains a marker of a policy that applies to that type.  The
analysis follows CTE references (reading a CTE that exposes unguarded rows of
a protected table is an unguarded read)."""
import vlib.shims  # noqa: F401
from vlib import cov
from vlib import schema_kit as K
from vlib import query_kit as Q
from vlib.concrete import untraced, concrete_index
from vlib.harness import Q_family as F

from edb import errors
from edb.common import ast as cast
from edb.edgeql import ast as qlast, qltypes
from edb.edgeql import compiler as qlcompiler
from edb.edgeql.compiler import options as coptions
from edb.pgsql import ast as pgast
from edb.pgsql import common as pgcommon
from edb.schema import ddl as s_ddl

SUBJECTS = ['file:edb/edgeql/compiler/policies.py', 'file:edb/edgeql/compiler/setgen.py', 'file:edb/edgeql/compiler/stmtctx.py',
            'file:edb/edgeql/compiler/typegen.py', 'file:edb/pgsql/compiler/relctx.py', 'file:edb/pgsql/compiler/pathctx.py',
            'file:edb/pgsql/compiler/relgen.py', 'file:edb/schema/policies.py']

# placements: which types carry a policy (each policy's condition uses its own marker)
PLACEMENTS = [
    ('Person',),
    ('Admin',),
    ('Post',),
    ('Person', 'Post'),
    ('Person', 'Admin'),
]
# kinds: list of (action, access kinds) per policy set
KINDS = [
    [('allow', ('select',))],
    [('allow', ('all',))],
    [('allow', ('select',)), ('deny', ('select',))],
    [('allow', ('select', 'update_read'))],
]
NPLACE, NKIND = len(PLACEMENTS), len(KINDS)
_PROP = {'Person': 'name', 'Admin': 'name', 'Post': 'title'}
_AK = {'select': qltypes.AccessKind.Select, 'all': None, 'update_read': qltypes.AccessKind.UpdateRead}
_SCHEMAS = {}
LAST = {}


def marker(typ, i):
    return f'POLICY-{typ}-{i}'


def policy_schema(placement: int, kind: int):
    key = (placement, kind)
    if key not in _SCHEMAS:
        st = K.id_state()
        K.reset_ids(0, start=8 * 10 ** 8 + 1000 * (placement * 10 + kind))
        s = Q.user_schema()
        markers = {}
        try:
            for typ in PLACEMENTS[placement]:
                for i, (action, kinds) in enumerate(KINDS[kind]):
                    m = marker(typ, i)
                    markers.setdefault(typ, []).append(m)
                    lhs = qlast.Path(steps=[qlast.Ptr(name=_PROP[typ])], partial=True)
                    if typ == 'Post':         # .title is optional: (.title ?? '') = marker
                        lhs = qlast.BinOp(left=lhs, op='??', right=qlast.Constant.string(''))
                    cond = qlast.BinOp(left=lhs, op='=', right=qlast.Constant.string(m))
                    Q.register_fragment(cond)
                    aks = ([qltypes.AccessKind.Select, qltypes.AccessKind.UpdateRead, qltypes.AccessKind.UpdateWrite,
                            qltypes.AccessKind.Delete, qltypes.AccessKind.Insert] if 'all' in kinds
                           else [_AK[k] for k in kinds])
                    node = qlast.AlterObjectType(name=K._ref('default::' + typ, K.OC.TYPE), commands=[
                        qlast.CreateAccessPolicy(
                            name=qlast.ObjectRef(name=f'p_{typ.lower()}_{i}'), condition=None,
                            action=qltypes.AccessPolicyAction.Allow if action == 'allow' else qltypes.AccessPolicyAction.Deny,
                            access_kinds=aks, expr=cond, commands=[])])
                    s, _ = s_ddl.delta_and_schema_from_ddl(node, schema=s, modaliases={None: 'default'})
        finally:
            K.restore_ids(st)
        _SCHEMAS[key] = (s, markers)
    return _SCHEMAS[key]


def protected_tables(schema, markers):
    """table name (uuid string) -> set of markers any of which guards it."""
    out = {}
    for typ, ms in markers.items():
        t = schema.get('default::' + typ)
        for x in [t] + list(t.descendants(schema)):
            tn = pgcommon.get_backend_name(schema, x, catenate=False)[1]
            out.setdefault(tn, set()).update(ms)
    return out


# ---- guard-flow analysis over the SQL tree --------------------------------------------

def _strings(node, acc):
    """All string constants below node (including nested selects)."""
    if isinstance(node, pgast.StringConstant):
        acc.add(node.val)
        return
    if isinstance(node, (list, tuple)):
        for x in node:
            _strings(x, acc)
        return
    if not isinstance(node, cast.AST):
        return
    for fname, v in cast.iter_fields(node, include_meta=False):
        if isinstance(v, (cast.AST, list, tuple)):
            _strings(v, acc)


def _aliases(node, acc):
    if isinstance(node, pgast.ColumnRef):
        if len(node.name) >= 2 and isinstance(node.name[0], str):
            acc.add(node.name[0])
        return
    if isinstance(node, (list, tuple)):
        for x in node:
            _aliases(x, acc)
        return
    if isinstance(node, (pgast.SelectStmt,)) or not isinstance(node, cast.AST):
        return
    for fname, v in cast.iter_fields(node, include_meta=False):
        if isinstance(v, (cast.AST, list, tuple)):
            _aliases(v, acc)


def _flatten(items):
    for it in items:
        if isinstance(it, pgast.JoinExpr):
            yield from _flatten([it.larg])
            for j in it.joins:
                yield from _flatten([j.rarg])
        else:
            yield it


class Flow:
    def __init__(self, protected):
        self.protected = protected
        self.cte_memo = {}
        self.reads = 0
        self.unguarded = []

    def exposes(self, q, guards: frozenset):
        """Walks query q; `guards` = markers present in the WHERE clauses of the enclosing selects."""
        if q is None:
            return
        if isinstance(q, pgast.SelectStmt) and q.op is not None:
            self.exposes(q.larg, guards)
            self.exposes(q.rarg, guards)
            self._ctes(q, guards)
            return
        here = set()
        wc = getattr(q, 'where_clause', None)
        if wc is not None:
            _strings(wc, here)
            # the compiler computes the policy condition in a LATERAL sub-select of the same FROM list and
            # filters on its output column: follow the range aliases the WHERE clause refers to
            used = set()
            _aliases(wc, used)
            for item in _flatten(getattr(q, 'from_clause', None) or []):
                al = getattr(getattr(item, 'alias', None), 'aliasname', None)
                if al in used and isinstance(item, pgast.RangeSubselect):
                    _strings(item.subquery, here)
        g2 = guards | frozenset(m for m in here if m.startswith('POLICY-'))
        self._ctes(q, guards)
        for item in (getattr(q, 'from_clause', None) or []):
            self._from(item, g2)
        rel = getattr(q, 'relation', None)
        if rel is not None and isinstance(q, pgast.DMLQuery):
            pass          # the DML target itself is not a read path of a read-only query
        # sub-queries in expression position
        for fname in ('target_list', 'where_clause', 'having_clause', 'sort_clause', 'limit_count', 'limit_offset',
                      'group_clause', 'values', 'returning_list', 'distinct_clause'):
            v = getattr(q, fname, None)
            if v is not None:
                self._expr(v, g2)

    def _ctes(self, q, guards):
        # CTE bodies are analysed at their point of USE (with the guards in force there)
        pass

    def _from(self, item, guards):
        if isinstance(item, pgast.RelRangeVar):
            rel = item.relation
            if isinstance(rel, pgast.CommonTableExpr):
                self._cte_use(rel, guards)
            elif isinstance(rel, pgast.Relation):
                self._table(rel, guards)
            else:
                self.exposes(rel, guards)
            return
        if isinstance(item, pgast.RangeSubselect):
            self.exposes(item.subquery, guards)
            return
        if isinstance(item, pgast.JoinExpr):
            self._from(item.larg, guards)
            for j in item.joins:
                self._from(j.rarg, guards)
                if j.quals is not None:
                    self._expr(j.quals, guards)
            return
        if isinstance(item, pgast.RangeFunction):
            self._expr(item.functions, guards)
            return
        raise RuntimeError('unsupported FROM item ' + type(item).__name__)

    def _cte_use(self, cte, guards):
        key = (id(cte), guards)
        if key in self.cte_memo:
            return
        self.cte_memo[key] = True
        self.exposes(cte.query, guards)

    def _table(self, rel, guards):
        name = rel.name
        if name in self.protected:
            self.reads += 1
            if not (self.protected[name] & guards):
                self.unguarded.append(name)

    def _expr(self, node, guards):
        if isinstance(node, (pgast.SelectStmt, pgast.InsertStmt, pgast.UpdateStmt, pgast.DeleteStmt)):
            self.exposes(node, guards)
            return
        if isinstance(node, (list, tuple)):
            for x in node:
                self._expr(x, guards)
            return
        if isinstance(node, pgast.BaseRangeVar):
            self._from(node, guards)
            return
        if not isinstance(node, cast.AST):
            return
        for fname, v in cast.iter_fields(node, include_meta=False):
            if isinstance(v, (cast.AST, list, tuple)):
                self._expr(v, guards)


def analyse(tree, protected):
    f = Flow(protected)
    f.exposes(tree, frozenset())
    return f


# ---- the obligation ---------------------------------------------------------------------

def guarded(form: int, a: int, wa: int, b: int, wb: int, placement: int, kind: int) -> bool:
    form = concrete_index(form, 3)                    # read-only forms 0..2
    a, b = concrete_index(a, F.NATOM), concrete_index(b, F.NATOM)
    wa, wb = concrete_index(wa, F.NWRAP), concrete_index(wb, F.NWRAP)
    placement, kind = concrete_index(placement, NPLACE), concrete_index(kind, NKIND)
    if min(form, a, b, wa, wb, placement, kind) < 0:
        return True
    with untraced(heavy=True):
        return _guarded(form, a, wa, b, wb, placement, kind, True)


def _guarded(form, a, wa, b, wb, placement, kind, rewrites=True) -> bool:
    cov.hit('step')
    r = F.query(form, a, wa, b, wb)
    if r is None:
        return True
    t, _k = r
    if Q.contains_dml(t):
        return True
    schema, markers = policy_schema(placement, kind)
    try:
        ir = qlcompiler.compile_ast_to_ir(Q.as_statement(t), schema, options=coptions.CompilerOptions(
            modaliases={None: 'default'}, apply_query_rewrites=rewrites))
        res, sql = Q.compile_sql(ir)
    except errors.InternalServerError:
        cov.hit('internal compiler error')
        return True
    except errors.EdgeDBError:
        cov.hit('rejected')
        return True
    prot = protected_tables(schema, markers)
    f = analyse(res.ast, prot)
    LAST.clear()
    if f.unguarded:
        names = {pgcommon.get_backend_name(schema, schema.get('default::' + n), catenate=False)[1]: n
                 for n in ('Person', 'Admin', 'Post')}
        LAST.update(query=Q.text(t), policies=[f'{typ}: {KINDS[kind]}' for typ in PLACEMENTS[placement]],
                    unguarded_reads_of=sorted({names.get(x, x) for x in f.unguarded}), sql=sql[:1500])
        return False
    cov.hit('reads of protected storage', f.reads)
    cov.done('query' if f.reads else 'query without protected reads')
    return True


def guarded_raw(form, a, wa, b, wb, placement, kind):
    ok = guarded(form, a, wa, b, wb, placement, kind)
    return {'ok': ok, **({} if ok else LAST)}


def twin_unprotected(a: int, wa: int) -> bool:
    """Reachability twin: with query rewrites switched off the analysis must see unguarded reads."""
    a, wa = concrete_index(a, F.NATOM), concrete_index(wa, F.NWRAP)
    if min(a, wa) < 0:
        return True
    with untraced(heavy=True):
        return _guarded(0, a, wa, 0, 0, 0, 0, rewrites=False)
