"""C14 - type descriptor ids: structurally different types get different ids.

Subject: the functions of edb/server/compiler/sertypes.py that build the
string hashed into a descriptor id.  uuid5 is replaced by the identity on
that string (assumption: SHA-1 does not collide), so "equal ids" becomes
"equal key strings", which the solver decides over symbolic names."""
import uuid

import vlib.shims  # noqa: F401
from vlib import cov

from edb.server.compiler import sertypes as S
from edb.server.compiler import enums

SUBJECTS = [
    'edb.server.compiler.sertypes._get_collection_type_id',
    'edb.server.compiler.sertypes._get_object_shape_id',
    'edb.server.compiler.sertypes._get_set_type_id',
]


def _id5(namespace, name):
    return ('ID', name)


_STUB = type('U', (), {'uuid5': staticmethod(_id5)})
_REAL = S.uuidgen


def _call(fn, *a, **k):
    # the stand-in for uuid5 is installed only around the calls of this harness: other harnesses that are
    # imported into the same process (the driver evaluates witness predicates of several findings) need the real one
    S.uuidgen = _STUB
    try:
        return fn(*a, **k)
    finally:
        S.uuidgen = _REAL

U = [uuid.UUID(int=1), uuid.UUID(int=2)]
CARDS = [enums.Cardinality.ONE, enums.Cardinality.AT_MOST_ONE, enums.Cardinality.MANY,
         enums.Cardinality.AT_LEAST_ONE]


def ok_name(n: str) -> bool:
    """Names the lexer can express as an element / pointer name."""
    if len(n) == 0:
        return False
    for i in range(len(n)):
        c = n[i]
        if ord(c) == 0:
            return False
        if c == ':' and i + 1 < len(n) and n[i + 1] == ':':
            return False
    return True


def has_colon(*names) -> bool:
    for n in names:
        if ':' in n:
            return True
    return False


def sub(i: int):
    return U[0] if i == 0 else U[1]


def card(i: int):
    if i == 0:
        return CARDS[0]
    if i == 1:
        return CARDS[1]
    if i == 2:
        return CARDS[2]
    return CARDS[3]


def _shape(names, ts, cs, lps, ls, implicit):
    return _call(S._get_object_shape_id, 
        'default::T', [sub(t) for t in ts], list(names), [card(c) for c in cs],
        links_props=list(lps), links=list(ls), has_implicit_fields=implicit)


def shape_2v2(a1: str, a2: str, b1: str, b2: str, ta: int, tb: int, ca: int, cb: int,
              la: bool, lb: bool, ia: bool, ib: bool) -> bool:
    """Two 2-element shapes of the same base type: equal key => equal
    description."""
    if not (ok_name(a1) and ok_name(a2) and ok_name(b1) and ok_name(b2)):
        cov.done('outside-domain')
        return True
    x = _shape([a1, a2], [ta, 0], [ca, 0], [False, la], [la, False], ia)
    y = _shape([b1, b2], [tb, 0], [cb, 0], [False, lb], [lb, False], ib)
    cov.done('shape2v2')
    if x == y:
        return a1 == b1 and a2 == b2 and ta == tb and ca == cb and la == lb and ia == ib
    return True


def shape_2v2_nocolon(a1: str, a2: str, b1: str, b2: str, ta: int, tb: int, ca: int, cb: int,
                      la: bool, lb: bool, ia: bool, ib: bool) -> bool:
    """shape_2v2 with the known finding F5 (names containing ':') excluded."""
    if has_colon(a1, a2, b1, b2):
        return True
    return shape_2v2(a1, a2, b1, b2, ta, tb, ca, cb, la, lb, ia, ib)


def shape_1v2(a1: str, b1: str, b2: str) -> bool:
    """A 1-element and a 2-element shape never share a key."""
    if not (ok_name(a1) and ok_name(b1) and ok_name(b2)):
        cov.done('outside-domain')
        return True
    x = _shape([a1], [0], [0], [False], [False], False)
    y = _shape([b1, b2], [0, 0], [0, 0], [False, False], [False, False], False)
    cov.done('shape1v2')
    return x != y


def shape_1v2_nocolon(a1: str, b1: str, b2: str) -> bool:
    if has_colon(a1, b1, b2):
        return True
    return shape_1v2(a1, b1, b2)


def tuple_2v2(a1: str, a2: str, b1: str, b2: str, ta: int, tb: int) -> bool:
    """Named tuples."""
    if not (ok_name(a1) and ok_name(a2) and ok_name(b1) and ok_name(b2)):
        cov.done('outside-domain')
        return True
    x = _call(S._get_collection_type_id, 'tuple', [sub(ta), sub(0)], [a1, a2])
    y = _call(S._get_collection_type_id, 'tuple', [sub(tb), sub(0)], [b1, b2])
    cov.done('tuple2v2')
    if x == y:
        return a1 == b1 and a2 == b2 and ta == tb
    return True


def tuple_2v2_nocolon(a1: str, a2: str, b1: str, b2: str, ta: int, tb: int) -> bool:
    if has_colon(a1, a2, b1, b2):
        return True
    return tuple_2v2(a1, a2, b1, b2, ta, tb)


def tuple_named_vs_plain(a1: str, a2: str) -> bool:
    """A named tuple and an unnamed one with the same element types differ."""
    if not (ok_name(a1) and ok_name(a2)):
        cov.done('outside-domain')
        return True
    x = _call(S._get_collection_type_id, 'tuple', [sub(0), sub(1)], [a1, a2])
    y = _call(S._get_collection_type_id, 'tuple', [sub(0), sub(1)], None)
    z = _call(S._get_collection_type_id, 'array', [sub(0)], None)
    w = _call(S._get_set_type_id, sub(0))
    cov.done('domain-separation')
    return x != y and x != z and y != z and w != x and w != y and w != z


def shape_vs_collection(a1: str, b1: str, kind: int) -> bool:
    """Shapes, collections and sets live in separate key spaces."""
    if not (ok_name(a1) and ok_name(b1)):
        cov.done('outside-domain')
        return True
    base = 'default::T' if kind == 0 else ('std::FreeObject' if kind == 1 else 'SQLRow')
    x = _call(S._get_object_shape_id, base, [sub(0)], [a1], [card(0)] if kind != 2 else None,
                               links_props=None if kind == 2 else [False], links=None if kind == 2 else [False])
    y = _call(S._get_collection_type_id, 'tuple', [sub(0)], [b1])
    w = _call(S._get_set_type_id, sub(0))
    cov.done('shape-vs-coll')
    return x != y and x != w and y != w
