"""C17 - compiler workers compile against the caller's current state.

Subject: compiler_pool.pool.AbstractPool.{_compute_compile_preargs (with its
inner sync_worker_state_cb), compile, compile_in_tx}, BaseWorker.call, and the
worker side compiler_pool.worker.{__sync__, compile, compile_in_tx} with its
module globals - two private copies of the worker module stand for two worker
processes.  Real pickle is used for every transfer; `pickle.loads` inside a
worker can be told to fail on a chosen part (failed state synchronisation).
"""
import importlib.util
import os
import pickle as _real_pickle
import sys

import immutables

import vlib.shims  # noqa: F401
from vlib import cov, REPO
from vlib.concrete import untraced, concrete_index, concrete_bool

from edb.server.compiler_pool import pool as P
from edb.server.compiler_pool import state as S

SUBJECTS = [
    'edb.server.compiler_pool.pool.AbstractPool._compute_compile_preargs',
    'edb.server.compiler_pool.pool.AbstractPool.compile',
    'edb.server.compiler_pool.pool.AbstractPool.compile_in_tx',
    'edb.server.compiler_pool.pool.BaseWorker.call',
    'edb.server.compiler_pool.worker.__sync__',
    'edb.server.compiler_pool.worker.compile',
    'edb.server.compiler_pool.worker.compile_in_tx',
]


def _load_worker_module(tag: str):
    path = os.path.join(REPO, 'edb/server/compiler_pool/worker.py')
    spec = importlib.util.spec_from_file_location('edb.server.compiler_pool.worker_' + tag, path)
    mod = importlib.util.module_from_spec(spec)
    mod.__package__ = 'edb.server.compiler_pool'
    spec.loader.exec_module(mod)
    return mod


_MODS = {'w0': _load_worker_module('w0'), 'w1': _load_worker_module('w1')}


class _Time:
    """pool.time stub (BaseWorker.call only records a last-used stamp)."""
    @staticmethod
    def monotonic():
        return 0.0


P.time = _Time


class FailingPickle:
    """pickle stand-in for one worker process: real codec, but loads() of the
    blob currently marked as poisoned raises (a failed state transfer)."""
    def __init__(self):
        self.poison = None

    def dumps(self, *a, **k):
        return _real_pickle.dumps(*a, **k)

    def loads(self, data, *a, **k):
        if self.poison is not None and data == self.poison:
            raise _real_pickle.UnpicklingError('injected transfer failure')
        return _real_pickle.loads(data, *a, **k)


class CompileError(Exception):
    pass


class Recorder:
    """COMPILER of a worker process: records what it was asked to compile
    against."""
    def __init__(self):
        self.calls = []
        self.fail = False
        self.state_serial = 0

    def compile_serialized_request(self, user_schema, global_schema, reflection_cache,
                                   database_config, system_config, *args, **kwargs):
        self.calls.append((user_schema, global_schema, reflection_cache, database_config, system_config))
        if self.fail:
            raise CompileError('injected compile error')
        self.state_serial += 1
        return 'units', CState('cstate', self.state_serial)

    def compile_serialized_request_in_tx(self, cstate, *args, **kwargs):
        self.calls.append(('in_tx', cstate))
        if self.fail:
            raise CompileError('injected compile error')
        self.state_serial += 1
        return 'units', CState('cstate', cstate.ident, self.state_serial)


class TransportError(Exception):
    pass


class CState:
    """Stand-in for dbstate.CompilerConnectionState (what travels between the
    server and the workers in a transaction)."""
    def __init__(self, *ident):
        self.ident = ident
        self.root = None

    def set_root_user_schema(self, schema):
        self.root = schema

    def __eq__(self, other):
        return isinstance(other, CState) and self.ident == other.ident

    def __hash__(self):
        return hash(self.ident)


class _Con:
    """amsg connection stand-in."""
    def __init__(self, worker):
        self.worker = worker

    def is_closed(self):
        return self.worker.dead


class Worker(P.BaseWorker):
    def __init__(self, tag):
        super().__init__(immutables.Map(), None, None, None, None, None, None)
        self.dead = False
        self._con = _Con(self)
        self.mod = _MODS[tag]       # loaded once; its globals are reset per history
        self.mod.pickle = FailingPickle()
        self.mod.COMPILER = Recorder()
        self.mod.DBS = immutables.Map()
        self.mod.GLOBAL_SCHEMA = None
        self.mod.INSTANCE_CONFIG = None
        self.mod.LAST_STATE = None
        self.drop_request = False
        self.drop_response = False

    async def _request(self, method_name, args):
        # worker_proc.worker(): look up the method, run it, wrap the outcome
        if self.drop_request:
            # amsg: a request only fails when the connection to the worker
            # process is lost; the worker is not used again
            self.dead = True
            raise TransportError('request lost')
        msg = _real_pickle.loads(_real_pickle.dumps((method_name, args)))
        meth = getattr(self.mod, msg[0])
        try:
            res = meth(*msg[1])
            data = (0, res)
        except Exception as ex:
            data = (1, ex, 'traceback')
        try:
            out = _real_pickle.dumps(data)
        except Exception as ex:
            out = _real_pickle.dumps((2, repr(ex)))
        if self.drop_response:
            self.dead = True
            raise TransportError('response lost')
        return out


class Pool(P.AbstractPool):
    def __init__(self):
        self.workers = [Worker('w0'), Worker('w1')]
        self.pick = 0

    async def _acquire_worker(self, **kw):
        return self.workers[self.pick]

    def _release_worker(self, worker, *, put_in_front=True):
        pass


def drive(coro):
    """The pool's coroutines never suspend here (in-process worker)."""
    try:
        coro.send(None)
    except StopIteration as e:
        return e.value
    raise RuntimeError('coroutine suspended')


# ---------------------------------------------------------------------------
# caller-side truth

US = [_real_pickle.dumps(('user-schema', i)) for i in range(4)]
GS = [_real_pickle.dumps(('global-schema', i)) for i in range(4)]
MAPS = {
    'rc': [immutables.Map({'r%d' % i: ('x',)}) for i in range(4)],
    'dc': [immutables.Map({'d': i}) for i in range(4)],
    'sc': [immutables.Map({'s': i}) for i in range(4)],
}
EMPTY = {'rc': immutables.Map(), 'dc': immutables.Map(), 'sc': immutables.Map()}
PARTS = ('us', 'rc', 'gs', 'dc', 'sc')


class Truth:
    """What the server currently holds (per database and globally)."""
    def __init__(self):
        self.db = {
            'a': {'us': US[0], 'rc': MAPS['rc'][0], 'dc': MAPS['dc'][0]},
            'b': {'us': US[0], 'rc': MAPS['rc'][0], 'dc': MAPS['dc'][0]},
        }
        self.glob = {'gs': GS[0], 'sc': MAPS['sc'][0]}
        self.prev = {}
        self.serial = 0

    def get(self, dbname, part):
        return self.glob[part] if part in ('gs', 'sc') else self.db[dbname][part]

    def set(self, dbname, part, value):
        self.prev[(dbname if part not in ('gs', 'sc') else None, part)] = self.get(dbname, part)
        if part in ('gs', 'sc'):
            self.glob[part] = value
        else:
            self.db[dbname][part] = value

    def change(self, dbname, part, kind):
        """kind 1: a new value; 2: a new *empty* (falsy) map (maps only);
        3: back to the previous value (same object as before)."""
        if kind == 1 or (kind == 2 and part in ('us', 'gs')):
            self.serial += 1
            i = 1 + self.serial % 3
            v = US[i] if part == 'us' else GS[i] if part == 'gs' else MAPS[part][i]
            if v is self.get(dbname, part):
                v = US[0] if part == 'us' else GS[0] if part == 'gs' else MAPS[part][0]
            self.set(dbname, part, v)
        elif kind == 2:
            self.set(dbname, part, EMPTY[part])
        elif kind == 3:
            key = (dbname if part not in ('gs', 'sc') else None, part)
            if key in self.prev:
                self.set(dbname, part, self.prev[key])


def part_of(i: int) -> str:
    if i == 0:
        return 'us'
    if i == 1:
        return 'rc'
    if i == 2:
        return 'gs'
    if i == 3:
        return 'dc'
    return 'sc'


def unpickled(v):
    return _real_pickle.loads(v) if isinstance(v, bytes) else v


def worker_consistent(w: Worker) -> bool:
    """Whatever the server records for a worker is what that worker process
    holds (or the server records nothing for that database)."""
    mod = w.mod
    for dbname, rec in w._dbs.items():
        db = mod.DBS.get(dbname)
        if db is None:
            return False
        if db.user_schema != unpickled(rec.user_schema_pickle):
            return False
        if db.reflection_cache != rec.reflection_cache:
            return False
        if db.database_config != rec.database_config:
            return False
    if w._dbs:
        if mod.GLOBAL_SCHEMA != unpickled(w._global_schema_pickle):
            return False
        if mod.INSTANCE_CONFIG != w._system_config:
            return False
    return True


# faults
F_NONE, F_COMPILE, F_SYNC, F_REQ_LOST, F_RESP_LOST = range(5)


def request(pool: Pool, truth: Truth, dbi: int, wi: int, fault: int, fpart: int) -> bool:
    """One compile() request carrying the caller's current truth."""
    dbname = 'a' if dbi == 0 else 'b'
    w = pool.workers[0 if wi == 0 else 1]
    pool.pick = 0 if wi == 0 else 1
    w.mod.COMPILER.fail = (fault == F_COMPILE)
    w.mod.pickle.poison = None
    if fault == F_SYNC:
        v = truth.get(dbname, part_of(fpart))
        w.mod.pickle.poison = v if isinstance(v, bytes) else _real_pickle.dumps(v, -1)
    w.drop_request = (fault == F_REQ_LOST)
    w.drop_response = (fault == F_RESP_LOST)
    ncalls = len(w.mod.COMPILER.calls)
    cov.hit('step')
    try:
        drive(pool.compile(dbname, truth.db[dbname]['us'], truth.glob['gs'], truth.db[dbname]['rc'],
                           truth.db[dbname]['dc'], truth.glob['sc'], 'request'))
    except (CompileError, S.FailedStateSync, TransportError):
        pass
    except RuntimeError:
        # "the connection to the compiler worker process is unexpectedly closed"
        if not w.dead:
            return False
    finally:
        w.mod.pickle.poison = None
        w.drop_request = w.drop_response = False
        w.mod.COMPILER.fail = False
    calls = w.mod.COMPILER.calls
    if len(calls) > ncalls:
        us, gs, rc, dc, sc = calls[-1]
        # compiled against exactly what was supplied with this request
        if us != unpickled(truth.db[dbname]['us']) or gs != unpickled(truth.glob['gs']):
            return False
        if rc != truth.db[dbname]['rc'] or dc != truth.db[dbname]['dc'] or sc != truth.glob['sc']:
            return False
    elif fault == F_NONE and not w.dead:
        return False      # a fault-free request must reach the compiler
    for x in pool.workers:
        if not x.dead and not worker_consistent(x):
            return False
    return True


def history(pre_b: bool, w1: int, d1: int, p1: int, k1: int, q1: int, j1: int, f1: int, g1: int,
            w2: int, d2: int, p2: int, k2: int, f2: int, g2: int, w3: int, d3: int) -> bool:
    """Recipe prefix (worker 0 has compiled for database a, optionally worker
    1 for database b) + request 1 (up to two parts changed, any fault) +
    request 2 (one part changed or reverted, any fault) + a fault-free probe
    request on any worker / database."""
    # every parameter is a choice: make it concrete (forks), then run natively
    pre_b = concrete_bool(pre_b)
    w1, d1, w2, d2, w3, d3 = (concrete_index(x, 2) for x in (w1, d1, w2, d2, w3, d3))
    p1, q1, p2 = (concrete_index(x, 6) for x in (p1, q1, p2))
    k1 = concrete_index(k1, 4) if p1 < 5 else 1
    j1 = concrete_index(j1, 4) if q1 < 5 else 1
    k2 = concrete_index(k2, 4) if p2 < 5 else 1
    f1, f2 = concrete_index(f1, 5), concrete_index(f2, 5)
    g1 = concrete_index(g1, 5) if f1 == F_SYNC else 0
    g2 = concrete_index(g2, 5) if f2 == F_SYNC else 0
    if min(w1, d1, w2, d2, w3, d3, p1, q1, p2, k1, j1, k2, f1, f2, g1, g2) < 0:
        return True              # outside the stated bound
    with untraced():
        return _history(pre_b, w1, d1, p1, k1, q1, j1, f1, g1, w2, d2, p2, k2, f2, g2, w3, d3)


def _history(pre_b, w1, d1, p1, k1, q1, j1, f1, g1, w2, d2, p2, k2, f2, g2, w3, d3) -> bool:
    pool = Pool()
    truth = Truth()
    if not request(pool, truth, 0, 0, F_NONE, 0):
        return False
    if pre_b and not request(pool, truth, 1, 1, F_NONE, 0):
        return False
    db1 = 'a' if d1 == 0 else 'b'
    if p1 < 5:
        truth.change(db1, part_of(p1), k1)
    if q1 < 5 and q1 != p1:
        truth.change(db1, part_of(q1), j1)
    if not request(pool, truth, d1, w1, f1, g1):
        return False
    db2 = 'a' if d2 == 0 else 'b'
    if p2 < 5:
        truth.change(db2, part_of(p2), k2)
    if not request(pool, truth, d2, w2, f2, g2):
        return False
    if not request(pool, truth, d3, w3, F_NONE, 0):
        return False
    cov.done('history')
    return True


def falsy_empty(args) -> bool:
    """Witness predicate for the (fixed) truthiness defect: some changed part
    became an empty map."""
    (pre_b, w1, d1, p1, k1, q1, j1, f1, g1, w2, d2, p2, k2, f2, g2, w3, d3) = args
    return ((k1 == 2 and p1 in (1, 3, 4)) or (j1 == 2 and q1 in (1, 3, 4)) or (k2 == 2 and p2 in (1, 3, 4)))


# ---------------------------------------------------------------------------
# compile_in_tx: REUSE_LAST_STATE_MARKER must denote the state the caller passes

def in_tx_history(w0: int, w1: int, w2: int, fail1: bool, stale: bool) -> bool:
    """compile() on worker w0 yields state s0; compile_in_tx(s0) on worker w1
    (optionally failing in the compiler), then compile_in_tx on w2 with the
    latest state the caller holds (or, if `stale`, deliberately an older one:
    the worker must then not reuse its in-memory state)."""
    pool = Pool()
    truth = Truth()
    pool.pick = 0 if w0 == 0 else 1
    units, s0, _ = drive(pool.compile('a', truth.db['a']['us'], truth.glob['gs'], truth.db['a']['rc'],
                                      truth.db['a']['dc'], truth.glob['sc'], 'request'))
    held = s0
    pool.pick = 0 if w1 == 0 else 1
    w = pool.workers[pool.pick]
    w.mod.COMPILER.fail = fail1
    try:
        units, s1, _ = drive(pool.compile_in_tx('a', truth.db['a']['us'], 1, held, 0, 'request'))
        older = held
        held = s1
    except CompileError:
        older = held
    finally:
        w.mod.COMPILER.fail = False
    use = older if stale else held
    pool.pick = 0 if w2 == 0 else 1
    w = pool.workers[pool.pick]
    n = len(w.mod.COMPILER.calls)
    cov.hit('step')
    drive(pool.compile_in_tx('a', truth.db['a']['us'], 1, use, 0, 'request'))
    tag, cstate = w.mod.COMPILER.calls[n]
    cov.done('in_tx')
    # the compiler was handed the state the caller's pickled state denotes
    return tag == 'in_tx' and cstate == _real_pickle.loads(use)


def in_tx_two_history(wa: int, wb: int, t1: int, w1: int, f1: bool, t2: int, w2: int, f2: bool,
                      t3: int, w3: int, f3: bool) -> bool:
    """Two transactions on two databases share the workers: A starts on worker wa (db 'a'), B on worker wb
    (db 'b', a different user schema); then three compile_in_tx calls, each for transaction t_i on worker
    w_i, optionally failing in the compiler.  Every call must hand the compiler the state that the caller's
    pickled state denotes - in particular after another transaction's *failed* call on the same worker."""
    pool = Pool()
    truth = Truth()
    truth.set('b', 'us', US[1])
    pool.workers[1].mod.COMPILER.state_serial = 100      # states made by the two workers are distinguishable
    held = {}
    for tx, db, wi in (('A', 'a', wa), ('B', 'b', wb)):
        pool.pick = 0 if wi == 0 else 1
        _units, st, _ = drive(pool.compile(db, truth.db[db]['us'], truth.glob['gs'], truth.db[db]['rc'],
                                           truth.db[db]['dc'], truth.glob['sc'], 'request'))
        held[tx] = st
    if _real_pickle.loads(held['A']) == _real_pickle.loads(held['B']):
        return True                                      # (cannot happen: serial offsets differ)
    for ti, wi, fail in ((t1, w1, f1), (t2, w2, f2), (t3, w3, f3)):
        tx, db = ('A', 'a') if ti == 0 else ('B', 'b')
        pool.pick = 0 if wi == 0 else 1
        w = pool.workers[pool.pick]
        n = len(w.mod.COMPILER.calls)
        use = held[tx]
        w.mod.COMPILER.fail = bool(fail)
        try:
            _units, st, _ = drive(pool.compile_in_tx(db, truth.db[db]['us'], 1, use, 0, 'request'))
            held[tx] = st
        except CompileError:
            pass
        finally:
            w.mod.COMPILER.fail = False
        cov.hit('step')
        if len(w.mod.COMPILER.calls) <= n:
            return False
        tag, cstate = w.mod.COMPILER.calls[n]
        if tag != 'in_tx' or cstate != _real_pickle.loads(use):
            return False
    cov.done('in_tx_two')
    return True
