"""C04 / C02 / C10 - the schema delta engine on hand-built command trees.

Subject: the real edb.schema machinery (delta.py, ddl.py, objtypes.py,
properties.py, links.py, pointers.py, annos.py, inheriting.py, referencing.py,
ordering.py, schema.py) applied to commands built by vlib/schema_kit.py (the
parser is not available, so commands are built as objects, not parsed).

A *history* is a sequence of indices into a fixed command menu over a small
name universe; the indices are symbolic choices.  Once the choices are made
the commands run natively."""
import vlib.shims  # noqa: F401
from vlib import cov
from vlib import schema_kit as K
from vlib.concrete import untraced, concrete_index

from edb.schema import ddl as s_ddl
from edb.schema import delta as sd

SUBJECTS = [
    'file:edb/schema/schema.py', 'file:edb/schema/delta.py', 'file:edb/schema/ddl.py',
    'file:edb/schema/inheriting.py', 'file:edb/schema/referencing.py', 'file:edb/schema/objtypes.py',
    'file:edb/schema/pointers.py', 'file:edb/schema/properties.py', 'file:edb/schema/links.py',
    'file:edb/schema/annos.py', 'file:edb/schema/ordering.py', 'file:edb/schema/objects.py',
]

TYPES = ('default::T0', 'default::T1', 'default::T2')
ALT = ('default::U0', 'default::U1', 'default::U2')      # rename targets
ANNO = 'default::note'
ANNO2 = 'default::memo'


def _menu():
    m = []
    for i, t in enumerate(TYPES):
        others = [x for j, x in enumerate(TYPES) if j != i]
        m.append((f'create {t}', lambda s, t=t: K.create_type(s, t)))
        for o in others:
            m.append((f'create {t} extending {o}', lambda s, t=t, o=o: K.create_type(s, t, bases=(o,))))
        m.append((f'create abstract {t}', lambda s, t=t: K.create_type(s, t, abstract=True)))
        m.append((f'drop {t}', lambda s, t=t: K.drop_type(s, t)))
        m.append((f'rename {t} to {ALT[i]}', lambda s, t=t, a=ALT[i]: K.rename_type(s, t, a)))
        m.append((f'rename {ALT[i]} to {t}', lambda s, t=t, a=ALT[i]: K.rename_type(s, a, t)))
        for o in others:
            m.append((f'alter {t} extending only {o}', lambda s, t=t, o=o: K.rebase_type(s, t, [o])))
        m.append((f'alter {t} extending {others[0]}, {others[1]}',
                  lambda s, t=t, o=others: K.rebase_type(s, t, list(o))))
        m.append((f'alter {t} extending only std::Object', lambda s, t=t: K.rebase_type(s, t, ['std::Object'])))
        m.append((f'alter {t} set abstract', lambda s, t=t: K.set_type_field(s, t, 'abstract', True)))
        m.append((f'create property {t}.p -> str', lambda s, t=t: K.create_property(s, t, 'p')))
        m.append((f'create required property {t}.q -> int64',
                  lambda s, t=t: K.create_property(s, t, 'q', target='std::int64', required=True)))
        m.append((f'drop property {t}.p', lambda s, t=t: K.drop_pointer(s, t, 'p')))
        m.append((f'rename property {t}.p to r', lambda s, t=t: K.rename_pointer(s, t, 'p', 'r')))
        m.append((f'alter property {t}.p set required', lambda s, t=t: K.set_pointer_required(s, t, 'p', True)))
        m.append((f'create link {t}.l -> {others[0]}', lambda s, t=t, o=others[0]: K.create_link(s, t, 'l', o)))
        m.append((f'create multi link {t}.m -> {t}', lambda s, t=t: K.create_link(s, t, 'm', t, multi=True)))
        m.append((f'drop link {t}.l', lambda s, t=t: K.drop_pointer(s, t, 'l', link=True)))
        m.append((f'annotate {t}', lambda s, t=t: K.set_annotation(s, t, ANNO, 'v')))
        m.append((f'drop annotation value on {t}', lambda s, t=t: K.drop_annotation_value(s, t, ANNO)))
    # renames onto a name that may be taken
    m.append(('rename default::T0 to default::T1', lambda s: K.rename_type(s, 'default::T0', 'default::T1')))
    m.append(('rename default::T1 to default::T2', lambda s: K.rename_type(s, 'default::T1', 'default::T2')))
    m.append(('rename property default::T0.p to q', lambda s: K.rename_pointer(s, 'default::T0', 'p', 'q')))
    # reference-valued internal fields set and reset (what the compiler does for derived union types)
    m.append(('alter default::T2 set union_of := {T0, T1}',
              lambda s: K.set_type_ref_field(s, 'default::T2', 'union_of', ['default::T0', 'default::T1'])))
    m.append(('alter default::T2 reset union_of', lambda s: K.set_type_ref_field(s, 'default::T2', 'union_of', None)))
    m.append(('create annotation note', lambda s: K.create_annotation(s, ANNO)))
    m.append(('rename annotation note to memo', lambda s: K.rename_annotation(s, ANNO, ANNO2)))
    m.append(('drop annotation note', lambda s: K.drop_annotation(s, ANNO)))
    # (appended last so that the indexes of the commands above stay what they were)
    for i, t in enumerate(TYPES):
        others = [x for j, x in enumerate(TYPES) if j != i]
        m.append((f'alter {t} extending {others[1]}, {others[0]}',
                  lambda s, t=t, o=others: K.rebase_type(s, t, [o[1], o[0]])))
        m.append((f'create {t} extending {others[1]}, {others[0]}',
                  lambda s, t=t, o=others: K.create_type(s, t, bases=(o[1], o[0]))))
    return m


MENU = _menu()
NMENU = len(MENU)
# migration menus (C02 / C10): everything except the internal union_of field
MIG_MENU = [i for i, (label, _f) in enumerate(MENU) if 'union_of' not in label]
NMIG = len(MIG_MENU)

RECIPES = {
    0: [],
    1: ['create default::T0', 'create default::T1 extending default::T0', 'create annotation note'],
    2: ['create default::T0', 'create default::T1 extending default::T0', 'create property default::T0.p -> str',
        'create link default::T1.l -> default::T0', 'create annotation note', 'annotate default::T0'],
    3: ['create abstract default::T0', 'create default::T1 extending default::T0', 'create default::T2 extending default::T1',
        'create required property default::T0.q -> int64', 'create multi link default::T2.m -> default::T2'],
}
RECIPES[4] = ['create default::T1', 'create default::T2', 'create default::T0 extending default::T1',
              'alter default::T0 extending default::T1, default::T2', 'create property default::T1.p -> str']
RECIPES[5] = ['create default::T0', 'create default::T1 extending default::T0', 'create property default::T0.p -> str',
              'create annotation note', 'annotate default::T0']
RECIPES[3] = RECIPES[3]
# the bases of recipe 4's T0 in the other order
RECIPES[6] = ['create default::T1', 'create default::T2', 'create default::T0 extending default::T2, default::T1',
              'create property default::T1.p -> str']
MIG_RECIPES = (0, 1, 4, 6, 5, 2, 3)      # the quick tier uses the first four
_LABEL = {label: i for i, (label, _f) in enumerate(MENU)}


_RECIPE_SCHEMAS = {}


def recipe_schema(r: int, seed: int = 0):
    """Recipe r built with ids drawn from (seed, r * 10000 ...): the same objects get the same
    ids in every process."""
    key = (r, seed)
    if key not in _RECIPE_SCHEMAS:
        st = K.id_state()
        K.reset_ids(seed, start=r * 10000)
        try:
            s = K.base_schema()
            for label in RECIPES[r]:
                s = MENU[_LABEL[label]][1](s)
        finally:
            K.restore_ids(st)
        _RECIPE_SCHEMAS[key] = s
    return _RECIPE_SCHEMAS[key]


LAST_INFO = {}


def history(recipe: int, k: int, c0: int, c1: int, c2: int, c3: int) -> bool:
    """C04: after every command - accepted or rejected - the schema is
    referentially intact, and every schema value obtained earlier still
    answers exactly as it did."""
    recipe = concrete_index(recipe, len(RECIPES))
    k = concrete_index(k, 5)
    cs = []
    for c in (c0, c1, c2, c3):
        if len(cs) >= k:
            break
        cs.append(concrete_index(c, NMENU))
    if recipe < 0 or k < 0 or any(c < 0 for c in cs):
        return True
    with untraced(heavy=True):
        return _history(recipe, cs)


_ACC = {}


def accepted_first(recipe):
    if recipe not in _ACC:
        acc = []
        s = recipe_schema(recipe)
        st = K.id_state()
        for c in range(NMENU):
            K.reset_ids(0)
            try:
                MENU[c][1](s)
                acc.append(c)
            except Exception:      # noqa: BLE001
                pass
        K.restore_ids(st)
        _ACC[recipe] = acc
    return _ACC[recipe]


def history_after_accepted(recipe: int, i0: int, c1: int, c2: int) -> bool:
    """history() with three commands, the first being the i0-th command the recipe accepts."""
    recipe = concrete_index(recipe, len(RECIPES))
    if recipe < 0:
        return True
    with untraced(heavy=True):
        acc = accepted_first(recipe)
    i0 = concrete_index(i0, len(acc))
    c1, c2 = concrete_index(c1, NMENU), concrete_index(c2, NMENU)
    if min(i0, c1, c2) < 0:
        return True
    with untraced(heavy=True):
        return _history(recipe, [acc[i0], c1, c2])


def _history(recipe, cs) -> bool:
    K.reset_ids(0)
    s = recipe_schema(recipe)
    versions = [(s, K.observe(s))]
    log = []
    for c in cs:
        label, fn = MENU[c]
        cov.hit('step')
        try:
            s2 = fn(s)
            log.append(label)
        except Exception as e:       # rejected: nothing new exists; `s` must be untouched
            log.append(label + ' -- rejected: ' + type(e).__name__)
            s2 = s
        probs = K.integrity_problems(s2)
        for old, obs in versions:
            if K.observe(old) != obs:
                probs.append('an earlier schema version changed')
        if probs:
            LAST_INFO.clear()
            LAST_INFO.update({'log': log, 'problems': probs[:5]})
            return False
        if s2 is not s:
            versions.append((s2, K.observe(s2)))
        s = s2
    cov.done('history')
    return True


# ---------------------------------------------------------------------------
# C02: a computed migration turns the old schema into exactly the new one

def build(recipe: int, cs):
    """Schema reached from a recipe by the commands that are accepted."""
    s = recipe_schema(recipe)
    for c in cs:
        try:
            s = MENU[c][1](s)
        except Exception:
            pass
    return s


def migrate(a, b):
    delta = s_ddl.delta_schemas(a, b)
    return delta.apply(a, sd.CommandContext())


def migration_reaches_target(ra: int, ka: int, a0: int, a1: int, rb: int, kb: int, b0: int, b1: int,
                             exclude_known: bool = True) -> bool:
    ra, rb = concrete_index(ra, len(MIG_RECIPES)), concrete_index(rb, len(MIG_RECIPES))
    ka, kb = concrete_index(ka, 3), concrete_index(kb, 3)
    ca = [concrete_index(c, NMIG) for c in (a0, a1)[:max(ka, 0)]]
    cb = [concrete_index(c, NMIG) for c in (b0, b1)[:max(kb, 0)]]
    if min([ra, rb, ka, kb] + ca + cb) < 0:
        return True
    ca = [MIG_MENU[c] for c in ca]
    cb = [MIG_MENU[c] for c in cb]
    with untraced(heavy=True):
        return _migration(MIG_RECIPES[ra], ca, MIG_RECIPES[rb], cb, exclude_known)


def _delta_features(delta):
    """(renames an object type, rebases an object type) - the witness
    predicate of known finding F17."""
    from edb.schema import inheriting, objtypes as s_ot
    ren = reb = False
    stack = list(delta.get_subcommands())
    while stack:
        x = stack.pop()
        if isinstance(x, s_ot.RenameObjectType):
            ren = True
        if isinstance(x, s_ot.RebaseObjectType):
            reb = True
        stack.extend(x.get_subcommands())
    return ren, reb


def _info(ra, ca, rb, cb, **kw):
    LAST_INFO.clear()
    LAST_INFO.update({'A': 'recipe %d + %s' % (ra, [MENU[c][0] for c in ca]),
                      'B': 'recipe %d + %s' % (rb, [MENU[c][0] for c in cb])})
    LAST_INFO.update(kw)


def _diff(va, vb):
    diff = sorted(k for k in set(va) | set(vb) if va.get(k) != vb.get(k))
    return {k: {f: (va.get(k, {}).get(f), vb.get(k, {}).get(f))
                for f in set(va.get(k, {})) | set(vb.get(k, {}))
                if va.get(k, {}).get(f) != vb.get(k, {}).get(f)} for k in diff[:3]}


def _migration(ra, ca, rb, cb, exclude_known=True) -> bool:
    """Whenever a migration a -> b is computed and accepted, the result
    equals b; likewise when its DDL statements are replayed and accepted.
    A migration that is refused (EdgeDB error while computing or applying
    it) is outside the statement."""
    K.reset_ids(0)
    a = build(ra, ca)
    b = build(rb, cb)
    cov.hit('step')
    try:
        delta = s_ddl.delta_schemas(a, b)
    except Exception:
        cov.done('no migration computed')
        return True
    renames, rebases = _delta_features(delta)
    known = exclude_known and renames and rebases
    try:
        a2 = delta.apply(a, sd.CommandContext())
    except Exception:
        cov.done('migration refused')
        return True
    vb = K.user_view(b)
    va = K.user_view(a2)
    if va != vb or K.integrity_problems(a2):
        _info(ra, ca, rb, cb, stage='direct application', differs=_diff(va, vb), F17=bool(renames and rebases))
        return known
    # the repository's own notion of "equal schemas": nothing left to migrate
    if list(s_ddl.delta_schemas(a2, b).get_subcommands()):
        _info(ra, ca, rb, cb, stage='residual delta after direct application', F17=bool(renames and rebases))
        return known
    # "the same holds when the migration's DDL is replayed"
    try:
        a3, text = K.replay_as_ddl(a, b)
    except Exception:
        cov.done('ddl replay refused')
        return True
    va = K.user_view(a3)
    if va != vb or K.integrity_problems(a3):
        _info(ra, ca, rb, cb, stage='DDL replay', ddl=text, differs=_diff(va, vb), F17=bool(renames and rebases))
        return known
    cov.done('migration')
    return True


def migration_raw(ra: int, ka: int, a0: int, a1: int, rb: int, kb: int, b0: int, b1: int) -> bool:
    """Un-narrowed variant (known finding F17 not excluded)."""
    return migration_reaches_target(ra, ka, a0, a1, rb, kb, b0, b1, False)


def migration_f17(ra, ka, a0, a1, rb, kb, b0, b1) -> bool:
    migration_reaches_target(ra, ka, a0, a1, rb, kb, b0, b1, False)
    return bool(LAST_INFO.get('F17'))


def f17_witness(args) -> bool:
    """Witness predicate of known finding F17 for a counterexample of
    migration_raw / migration_reaches_target (8 arguments) or
    path_independent (5 arguments): the computed migration both renames an
    object type and changes the bases of one."""
    LAST_INFO.clear()
    if len(args) >= 8:
        migration_reaches_target(*args[:8], False)
    else:
        path_independent(*args[:5])
    return bool(LAST_INFO.get('F17'))


# ---------------------------------------------------------------------------
# C10: step-by-step migration equals direct migration; migrating to the empty
# schema removes everything

def path_independent(r1: int, c1: int, r2: int, c2: int, d2: int) -> bool:
    r1, r2 = concrete_index(r1, len(MIG_RECIPES)), concrete_index(r2, len(MIG_RECIPES))
    # command index NMIG = "no command"
    c1, c2, d2 = concrete_index(c1, NMIG + 1), concrete_index(c2, NMIG + 1), concrete_index(d2, NMIG + 1)
    if min(r1, r2, c1, c2, d2) < 0:
        return True
    c1, c2, d2 = (MIG_MENU[c] if c < NMIG else None for c in (c1, c2, d2))
    with untraced(heavy=True):
        return _path_independent(MIG_RECIPES[r1], c1, MIG_RECIPES[r2], c2, d2)


def _path_independent(r1, c1, r2, c2, d2) -> bool:
    K.reset_ids(0)
    empty = K.base_schema()
    s1 = build(r1, [c for c in (c1,) if c is not None])
    s2 = build(r2, [c for c in (c2, d2) if c is not None])
    cov.hit('step')
    try:
        d12 = s_ddl.delta_schemas(s1, s2)
        ren, reb = _delta_features(d12)
        via = migrate(migrate(empty, s1), s2)
        direct = migrate(empty, s2)
        gone = migrate(via, empty)
    except Exception:
        cov.done('a step was refused')
        return True
    vv, vd, v2 = K.user_view(via), K.user_view(direct), K.user_view(s2)
    ok = (vv == vd == v2 and K.user_view(gone) == K.user_view(empty)
          and not K.integrity_problems(via) and not K.integrity_problems(gone))
    if not ok:
        LAST_INFO.clear()
        LAST_INFO.update({'s1': 'recipe %d + %s' % (r1, [MENU[c][0] for c in (c1,) if c is not None]),
                          's2': 'recipe %d + %s' % (r2, [MENU[c][0] for c in (c2, d2) if c is not None]),
                          'via_vs_direct': _diff(vv, vd), 'left_over': sorted(set(K.user_view(gone)) - set(K.user_view(empty)))[:5],
                          'F17': bool(ren and reb)})
        return bool(ren and reb)         # known finding F17
    cov.done('path')
    return True
