"""C19 - configuration commands compose and persist as specified.

Subject: edb.server.config.ops (Operation.apply / coerce_* / set_value /
value_to_json_value / value_from_json_value / to_json_obj / from_json /
Operation.from_json), edb.server.config.lookup, config.types.
CompositeConfigType, over a hand-built FlatSpec (as upstream's own config
tests do)."""
import immutables

import vlib.shims  # noqa: F401
from vlib import cov

from edb import errors
from edb.edgeql import qltypes
from edb.ir import statypes
from edb.server import config
from edb.server.config import ops, spec as cspec, types as ctypes

SUBJECTS = [
    'edb.server.config.ops.Operation',
    'edb.server.config.ops.coerce_single_value',
    'edb.server.config.ops.coerce_object_set',
    'edb.server.config.ops._check_object_set_uniqueness',
    'edb.server.config.ops.set_value',
    'edb.server.config.ops.value_to_json_value',
    'edb.server.config.ops.value_from_json_value',
    'edb.server.config.ops.to_json_obj',
    'edb.server.config.ops.from_json',
    'edb.server.config.lookup',
    'edb.server.config.types.CompositeConfigType',
]


class _IdJson:
    """json replaced by the identity: the structure handed to / received from
    the codec is what is analysed, not the C codec."""
    @staticmethod
    def dumps(x, *a, **k):
        return x

    @staticmethod
    def loads(x, *a, **k):
        return x


ops.json = _IdJson

Field = statypes.CompositeTypeSpecField


def _mk_fields(*fields):
    return immutables.Map({f.name: f for f in fields})


Port = ctypes.ConfigTypeSpec(
    name='Port',
    fields=_mk_fields(
        Field('database', str, unique=True),
        Field('port', int),
        Field('user', str, default='u'),
    ),
)

ISO = statypes.TransactionIsolation

SPEC = cspec.FlatSpec(
    cspec.Setting('i', type=int, default=7),
    cspec.Setting('b', type=bool, default=False),
    cspec.Setting('s', type=str, default='d'),
    cspec.Setting('e', type=ISO, default=ISO('Serializable')),
    cspec.Setting('ss', type=str, set_of=True, default=frozenset()),
    cspec.Setting('port', type=Port, default=None),
    cspec.Setting('ports', type=Port, set_of=True, default=frozenset()),
)

SESSION = qltypes.ConfigScope.SESSION
DATABASE = qltypes.ConfigScope.DATABASE
INSTANCE = qltypes.ConfigScope.INSTANCE
EMPTY = immutables.Map()


def scope_of(k: int):
    if k == 0:
        return SESSION
    if k == 1:
        return DATABASE
    return INSTANCE


def setting_of(k: int) -> str:
    if k == 0:
        return 'i'
    if k == 1:
        return 'b'
    if k == 2:
        return 's'
    return 'e'


def enum_text(k: int) -> str:
    if k == 0:
        return 'Serializable'
    if k == 1:
        return 'RepeatableRead'
    return 'Bogus'


def good_value(si: int, vi: int, vb: bool, vs: str, ve: int):
    """A value of the setting's own type (the enum as its string form)."""
    if si == 0:
        return vi
    if si == 1:
        return vb
    if si == 2:
        return vs
    return enum_text(ve)


def bad_value(si: int, vi: int, vs: str):
    """A value of a type the setting does not accept."""
    if si == 0:
        return vs           # str for int
    if si == 1:
        return vi           # int for bool
    if si == 2:
        return vi           # int for str
    return vi               # int for enum


def same_value(si: int, got, expect) -> bool:
    if si == 3:
        return isinstance(got, ISO) and got.to_str() == expect
    return got == expect and type(got) is type(expect)


def lookup3(name, stores):
    return config.lookup(name, stores[0], stores[1], stores[2], spec=SPEC)


# ---------------------------------------------------------------------------

def scalar_op(si: int, p0: bool, p1: bool, p2: bool, a0: int, a1: int, a2: int,
              other: bool, op: int, sc: int, wrong: bool,
              vi: int, vb: bool, vs: str, ve: int) -> bool:
    """Pre-state: setting `si` present/absent in each scope (built with real
    SET operations), optionally another setting present in the target scope;
    one SET / RESET at scope `sc` with a well- or ill-typed value."""
    name = setting_of(si)
    stores = [EMPTY, EMPTY, EMPTY]
    model = [None, None, None]
    pres = [p0, p1, p2]
    seeds = [a0, a1, a2]
    for k in range(3):
        if pres[k]:
            v = good_value(si, seeds[k], seeds[k] % 2 == 0, 'v%d' % k, k % 2)
            stores[k] = ops.Operation(ops.OpCode.CONFIG_SET, scope_of(k), name, v).apply(SPEC, stores[k])
            model[k] = v
    oname = setting_of((si + 1) % 3)
    ovalue = good_value((si + 1) % 3, 41, True, 'o', 0)
    if other:
        stores[sc] = ops.Operation(ops.OpCode.CONFIG_SET, scope_of(sc), oname, ovalue).apply(SPEC, stores[sc])
    before = list(stores)
    if op == 0:
        value = bad_value(si, vi, vs) if wrong else good_value(si, vi, vb, vs, ve)
        o = ops.Operation(ops.OpCode.CONFIG_SET, scope_of(sc), name, value)
    else:
        value = None
        o = ops.Operation(ops.OpCode.CONFIG_RESET, scope_of(sc), name, None)
    invalid = op == 0 and (wrong or (si == 3 and ve >= 2))
    cov.hit('step')
    try:
        stores[sc] = o.apply(SPEC, stores[sc])
    except (errors.ConfigurationError, errors.InvalidValueError):
        cov.done('rejected')
        # rejected without changing anything
        return invalid and stores[0] is before[0] and stores[1] is before[1] and stores[2] is before[2]
    if invalid:
        return False
    model[sc] = value if op == 0 else None
    # effective value: most specific scope that defines it, else the default
    expect = None
    have = False
    for k in (0, 1, 2):
        if model[k] is not None and not have:
            expect = model[k]
            have = True
    got = lookup3(name, stores)
    cov.done('applied')
    if have:
        if not same_value(si, got, expect):
            return False
    else:
        if got is not SPEC[name].default and got != SPEC[name].default:
            return False
    # other scopes untouched (same objects); the other setting untouched
    for k in range(3):
        if k != sc and stores[k] is not before[k]:
            return False
    if other:
        if oname not in stores[sc] or stores[sc][oname].value != ovalue:
            return False
    # bookkeeping of the stored entry
    if op == 0:
        sv = stores[sc][name]
        if sv.name != name or sv.scope is not scope_of(sc):
            return False
        if sv.source != ('session' if sc == 0 else 'database' if sc == 1 else 'system override'):
            return False
    else:
        if name in stores[sc]:
            return False
    return True


def set_of_op(n: int, s0: str, s1: str, s2: str, bad: bool, sc: int, then_reset: bool) -> bool:
    """multi-valued scalar setting: SET to a collection of n strings."""
    vals = [s0, s1, s2][:n]
    value = vals + [5] if bad else vals
    st = EMPTY
    try:
        st2 = ops.Operation(ops.OpCode.CONFIG_SET, scope_of(sc), 'ss', value).apply(SPEC, st)
    except errors.ConfigurationError:
        cov.done('rejected')
        return bad
    if bad:
        return False
    got = config.lookup('ss', st2, spec=SPEC)
    ok = isinstance(got, frozenset) and got == frozenset(vals)
    # JSON round trip of a set-valued setting yields a set again
    back = ops.from_json(SPEC, ops.to_json(SPEC, st2))
    ok = ok and isinstance(back['ss'].value, frozenset) and back['ss'].value == got
    ok = ok and back['ss'].scope is scope_of(sc) and back['ss'].source == st2['ss'].source
    if then_reset:
        st3 = ops.Operation(ops.OpCode.CONFIG_RESET, scope_of(sc), 'ss', None).apply(SPEC, st2)
        ok = ok and config.lookup('ss', st3, spec=SPEC) == frozenset()
    cov.done('set_of')
    return ok


def json_roundtrip(pi: bool, pb: bool, ps: bool, pe: bool, vi: int, vb: bool, vs: str, ve: int, sc: int) -> bool:
    """from_json(to_json(storage)) preserves name, value, source and scope."""
    st = EMPTY
    if pi:
        st = ops.Operation(ops.OpCode.CONFIG_SET, scope_of(sc), 'i', vi).apply(SPEC, st)
    if pb:
        st = ops.Operation(ops.OpCode.CONFIG_SET, scope_of(sc), 'b', vb).apply(SPEC, st)
    if ps:
        st = ops.Operation(ops.OpCode.CONFIG_SET, scope_of(sc), 's', vs).apply(SPEC, st)
    if pe:
        st = ops.Operation(ops.OpCode.CONFIG_SET, scope_of(sc), 'e', enum_text(ve)).apply(SPEC, st)
    js = ops.to_json(SPEC, st)
    back = ops.from_json(SPEC, js)
    cov.done('json')
    if len(back) != len(st):
        return False
    for name in ('i', 'b', 's', 'e'):
        if (name in st) != (name in back):
            return False
        if name in st:
            a, b = st[name], back[name]
            if a.name != b.name or a.source != b.source or a.scope is not b.scope:
                return False
            if name == 'e':
                if not (isinstance(b.value, ISO) and b.value.to_str() == a.value.to_str()):
                    return False
            elif a.value != b.value or type(a.value) is not type(b.value):
                return False
            # the effective configuration is the same
            if config.lookup(name, back, spec=SPEC) != config.lookup(name, st, spec=SPEC):
                return False
    return True


def op_from_json(oc: int, sc: int, si: int, vi: int, vs: str, use_str: bool) -> bool:
    """Operation.from_json over the list encoding is the identity."""
    opcode = [ops.OpCode.CONFIG_SET, ops.OpCode.CONFIG_RESET, ops.OpCode.CONFIG_ADD, ops.OpCode.CONFIG_REM][oc]
    value = vs if use_str else vi
    enc = [str(opcode), str(scope_of(sc)), setting_of(si), value]
    o = ops.Operation.from_json(enc)
    cov.done('op_from_json')
    return (o.opcode is opcode and o.scope is scope_of(sc) and o.setting_name == setting_of(si)
            and o.value == value)


def _port(db: str, port: int):
    return {'database': db, 'port': port}


def pick3(i: int) -> str:
    if i == 0:
        return 'a'
    if i == 1:
        return 'b'
    return 'a b'


def pickport(i: int) -> int:
    if i == 0:
        return 0
    if i == 1:
        return 5432
    return -1


def object_ops_idx(i0: int, i1: int, j0: int, j1: int, sc: int, mode: int) -> bool:
    """object_ops over keys / ports drawn from small constant pools by symbolic
    index (objects are hashed into frozensets: hashing a symbolic str or int
    makes CrossHair realise it, which degenerates into enumerating values)."""
    return object_ops(pick3(i0), pick3(i1), pickport(j0), pickport(j1), sc, mode)


def object_ops(d0: str, d1: str, q0: int, q1: int, sc: int, mode: int) -> bool:
    """Object-valued settings (CONFIGURE INSERT / RESET ... FILTER):
    mode 0: ADD a, ADD b, REM b  -> {a};   duplicate exclusive key rejected
    mode 1: SET single-valued object with one value, then with two (rejected)
    mode 2: ADD a, REM a -> empty, effective value = default"""
    st = EMPTY
    scope = scope_of(sc)
    if mode == 0:
        st1 = ops.Operation(ops.OpCode.CONFIG_ADD, scope, 'ports', _port(d0, q0)).apply(SPEC, st)
        try:
            st2 = ops.Operation(ops.OpCode.CONFIG_ADD, scope, 'ports', _port(d1, q1)).apply(SPEC, st1)
        except errors.ConstraintViolationError:
            cov.done('rejected-dup')
            # exclusive field `database`: rejected iff the key repeats
            return d0 == d1 and len(config.lookup('ports', st1, spec=SPEC)) == 1
        if d0 == d1:
            return False
        v2 = config.lookup('ports', st2, spec=SPEC)
        if len(v2) != 2:
            return False
        st3 = ops.Operation(ops.OpCode.CONFIG_REM, scope, 'ports', _port(d1, q1)).apply(SPEC, st2)
        v3 = config.lookup('ports', st3, spec=SPEC)
        v1 = config.lookup('ports', st1, spec=SPEC)
        cov.done('add-add-rem')
        ok = v3 == v1 and len(v3) == 1
        # JSON round trip of the two-element set
        back = ops.from_json(SPEC, ops.to_json(SPEC, st2))
        return ok and back['ports'].value == v2
    if mode == 1:
        st1 = ops.Operation(ops.OpCode.CONFIG_SET, scope, 'port', [_port(d0, q0)]).apply(SPEC, st)
        got = config.lookup('port', st1, spec=SPEC)
        ok = len(got) == 1 and list(got)[0].database == d0 and list(got)[0].port == q0
        try:
            ops.Operation(ops.OpCode.CONFIG_SET, scope, 'port', [_port(d0, q0), _port(d1, q1)]).apply(SPEC, st1)
        except errors.ConstraintViolationError:
            cov.done('single-two-rejected')
            return ok
        return False
    st1 = ops.Operation(ops.OpCode.CONFIG_ADD, scope, 'ports', _port(d0, q0)).apply(SPEC, st)
    st2 = ops.Operation(ops.OpCode.CONFIG_REM, scope, 'ports', _port(d0, q0)).apply(SPEC, st1)
    cov.done('add-rem')
    return config.lookup('ports', st2, spec=SPEC) == frozenset()


def bad_object(d0: str, q0: int, kind: int) -> bool:
    """Ill-formed object values are rejected and nothing is stored."""
    if kind == 0:
        value = {'database': d0}                       # missing required field
    elif kind == 1:
        value = {'database': d0, 'port': 'x'}          # wrong field type
    elif kind == 2:
        value = {'database': d0, 'port': q0, 'zzz': 1}  # unknown field
    else:
        value = d0                                     # not an object at all
    try:
        ops.Operation(ops.OpCode.CONFIG_ADD, SESSION, 'ports', value).apply(SPEC, EMPTY)
    except errors.ConfigurationError:
        cov.done('bad-object')
        return True
    return False


def unknown_setting(vi: int, oc: int) -> bool:
    opcode = ops.OpCode.CONFIG_SET if oc == 0 else ops.OpCode.CONFIG_RESET
    try:
        ops.Operation(opcode, SESSION, 'nope', vi if oc == 0 else None).apply(SPEC, EMPTY)
    except errors.ConfigurationError:
        cov.done('unknown')
        return True
    return False


# ---------------------------------------------------------------------------
# text codecs of duration / memory settings (the integer <-> decimal text part CrossHair and the
# string solvers cannot reason about symbolically): a structured finite family, chosen symbolically,
# executed natively

_HOURS = [0, 1, 12, 25, 100000]
_MINS = [0, 1, 59]
_SECS = [0, 1, 59]
_MICROS = [0, 1, 250000, 500000, 999999, 100]
_MEM = [0, 1, 1023, 1024, 1025, 1024 ** 2, 1024 ** 3, 5 * 1024 ** 4, 1536, 1024 ** 5 * 3]


def duration_roundtrip(neg: bool, hi: int, mi: int, si: int, ui: int) -> bool:
    """Duration: microseconds -> ISO-8601 text -> microseconds, and through the JSON form of a setting value."""
    from vlib.concrete import concrete_index, untraced
    from edb.ir import statypes
    hi, mi, si, ui = (concrete_index(hi, len(_HOURS)), concrete_index(mi, len(_MINS)), concrete_index(si, len(_SECS)),
                      concrete_index(ui, len(_MICROS)))
    if min(hi, mi, si, ui) < 0:
        return True
    neg = True if neg else False
    with untraced():
        us = ((_HOURS[hi] * 60 + _MINS[mi]) * 60 + _SECS[si]) * 1000000 + _MICROS[ui]
        if neg:
            us = -us
        d = statypes.Duration.from_microseconds(us)
        text = d.to_iso8601()
        back = statypes.Duration.from_iso8601(text)
        ok = back.to_microseconds() == us and back == d
        # the form config.to_json writes and from_json reads
        js = d.to_json()
        back2 = statypes.Duration(js)
        ok = ok and back2.to_microseconds() == us
        # PostgreSQL interval text form (what the backend returns for the setting)
        back3 = statypes.Duration(d.to_backend_str())
        ok = ok and back3.to_microseconds() == us
        cov.done('duration')
        return ok


def memory_roundtrip(mi: int) -> bool:
    from vlib.concrete import concrete_index, untraced
    from edb.ir import statypes
    mi = concrete_index(mi, len(_MEM))
    if mi < 0:
        return True
    with untraced():
        n = _MEM[mi]
        m = statypes.ConfigMemory(n)
        ok = statypes.ConfigMemory(m.to_str()).to_nbytes() == n and statypes.ConfigMemory(m.to_json()).to_nbytes() == n
        cov.done('memory')
        return ok


# ---------------------------------------------------------------------------
# polymorphic config objects: an exclusive field declared on an abstract parent
# (like cfg::EmailProviderConfig.name) holds ACROSS its concrete subtypes

Provider = ctypes.ConfigTypeSpec(
    name='Provider',
    fields=_mk_fields(Field('name', str, unique=True)),
)
SMTP = ctypes.ConfigTypeSpec(
    name='SMTP', parent=Provider,
    fields=_mk_fields(Field('name', str, unique=True), Field('host', str, default='h')),
)
Webhook = ctypes.ConfigTypeSpec(
    name='Webhook', parent=Provider,
    fields=_mk_fields(Field('name', str, unique=True), Field('url', str, default='u')),
)
Provider.children.extend([SMTP, Webhook])

SPEC_POLY = cspec.FlatSpec(
    cspec.Setting('providers', type=Provider, set_of=True, default=frozenset()),
)


def _provider(kind: int, name: str):
    if kind == 0:
        return {'_tname': 'SMTP', 'name': name}
    return {'_tname': 'Webhook', 'name': name}


def poly_object_ops(i0: int, i1: int, k0: int, k1: int, sc: int) -> bool:
    """CONFIGURE INSERT of two provider objects of symbolically chosen subtypes and names: the second one is
    rejected exactly when the names are equal - whether or not the subtypes are (the exclusive field is
    declared on the common parent); otherwise both are stored, at the scope they were inserted at."""
    d0, d1 = pick3(i0), pick3(i1)
    scope = scope_of(sc)
    st1 = ops.Operation(ops.OpCode.CONFIG_ADD, scope, 'providers', _provider(k0, d0)).apply(SPEC_POLY, EMPTY)
    try:
        st2 = ops.Operation(ops.OpCode.CONFIG_ADD, scope, 'providers', _provider(k1, d1)).apply(SPEC_POLY, st1)
    except errors.ConstraintViolationError:
        cov.done('poly-rejected-dup')
        return d0 == d1 and len(config.lookup('providers', st1, spec=SPEC_POLY)) == 1
    if d0 == d1:
        return False
    v2 = config.lookup('providers', st2, spec=SPEC_POLY)
    cov.done('poly-add-add')
    return len(v2) == 2 and sorted(v.name for v in v2) == sorted([d0, d1])
