"""C13 - generated SQL is well-scoped, parameter-consistent and deterministic.

Subject: the real EdgeQL->IR compiler (edb.edgeql.compiler), the real IR->SQL
compiler (edb.pgsql.compiler.compile_ir_to_sql_tree) and SQL code generator
(edb.pgsql.codegen), run on hand-built qlast queries of vlib/harness/Q_family.py
against the user schema of vlib/query_kit.py (no parser, a transcribed fragment
of the standard library).

For every ACCEPTED query of the family:
  * every column reference of the emitted SQL tree resolves under PostgreSQL's
    scoping rules (vlib/sqlscope.py): range variables in scope at the point of
    reference incl. LATERAL visibility, CTE visibility, output columns of
    sub-selects and CTEs;
  * the SQL parameters ($n) are exactly those of the reported argument map,
    numbered 1..n, and the argument map covers exactly the query's parameters;
  * compiling the same query again (fresh AST, fresh compilation) gives
    byte-identical SQL, the same argument map and the same type descriptors."""
import vlib.shims  # noqa: F401
from vlib import cov
from vlib import query_kit as Q
from vlib import sqlscope
from vlib.concrete import untraced, concrete_index
from vlib.harness import Q_family as F

from edb import errors

SUBJECTS = ['file:edb/pgsql/compiler/relctx.py', 'file:edb/pgsql/compiler/pathctx.py', 'file:edb/pgsql/compiler/relgen.py',
            'file:edb/pgsql/compiler/clauses.py', 'file:edb/pgsql/compiler/stmt.py', 'file:edb/pgsql/compiler/dml.py',
            'file:edb/pgsql/compiler/output.py', 'file:edb/pgsql/compiler/shapecomp.py', 'file:edb/pgsql/compiler/expr.py',
            'file:edb/pgsql/compiler/__init__.py', 'file:edb/pgsql/compiler/astutils.py', 'file:edb/pgsql/codegen.py',
            'file:edb/common/compiler.py', 'file:edb/edgeql/compiler/stmt.py', 'file:edb/edgeql/compiler/setgen.py']

LAST = {}
PROTO = (3, 0)


def _compile(t):
    ir = Q.compile_ir(t)
    res, sql = Q.compile_sql(ir)
    return ir, res, sql


def _descriptors(ir):
    from edb.server.compiler import sertypes
    out = sertypes.describe(ir.schema, ir.stype, ir.view_shapes, ir.view_shapes_metadata, protocol_version=PROTO)
    return out


def check_query(t):
    """-> list of problems (empty = fine), or None when the query is not accepted."""
    try:
        ir, res, sql = _compile(t)
    except errors.InternalServerError as e:
        cov.hit('internal compiler error')
        LAST.update(internal_error=str(e)[:200])
        return None
    except errors.EdgeDBError:
        cov.hit('rejected')
        return None
    except NotImplementedError:
        cov.hit('needs the parser')
        return None
    probs = []
    sc = sqlscope.check(res.ast)
    if sc['status'] == 'unsupported':
        cov.hit('scope check: unsupported node')
        LAST.update(unsupported=sc.get('detail'))
    elif sc['status'] == 'violation':
        probs += ['scope: ' + p for p in sc['problems'][:4]]
    # parameters
    argmap = dict(res.argmap or {})
    idx = sorted(p.index for p in argmap.values())
    if idx != list(range(1, len(idx) + 1)):
        probs.append(f'argument map indexes {idx} are not 1..n')
    used = set(sc.get('params') or [])
    if sc['status'] != 'unsupported' and used != set(idx):
        # every parameter of the argument map has to occur in the statement (PostgreSQL cannot infer the type of
        # a declared parameter that the text never mentions), and nothing else may
        probs.append(f'SQL mentions parameters {sorted(used)} but the argument map has {idx}')
    names = {p.name for p in ir.params}
    if names != set(argmap):
        probs.append(f'argument map names {sorted(argmap)} differ from the query parameters {sorted(names)}')
    for p in ir.params:
        if p.name in argmap and bool(argmap[p.name].required) != bool(p.required):
            probs.append(f'parameter {p.name}: required={p.required} in the IR, {argmap[p.name].required} in the argument map')
    import re
    in_text = {int(m) for m in re.findall(r'\$(\d+)', re.sub(r"'(?:[^']|'')*'", "''", sql))}
    if sc['status'] != 'unsupported' and in_text != used:
        probs.append(f'parameters in the SQL text {sorted(in_text)} differ from those in the SQL tree {sorted(used)}')
    # determinism
    try:
        ir2, res2, sql2 = _compile(t)
        if sql2 != sql:
            probs.append('second compilation gives different SQL text')
        if repr(sorted((k, v.index, v.required, v.logical_index) for k, v in (res2.argmap or {}).items())) != \
                repr(sorted((k, v.index, v.required, v.logical_index) for k, v in argmap.items())):
            probs.append('second compilation gives a different argument map')
        try:
            d1, d2 = _descriptors(ir), _descriptors(ir2)
            if d1 != d2:
                if _dml_coalesce(t):
                    cov.hit('F19 pattern')
                    LAST['F19'] = True
                    if EXCLUDE_KNOWN[0]:
                        d1 = d2
                if d1 != d2:
                    probs.append('second compilation gives different type descriptors')
            cov.hit('descriptors compared')
        except Exception as e:      # noqa: BLE001
            cov.hit('descriptor not computed: ' + type(e).__name__)
    except errors.EdgeDBError as e:
        probs.append('second compilation fails: ' + str(e)[:100])
    cov.hit('accepted')
    return probs


EXCLUDE_KNOWN = [True]


def _dml_coalesce(t) -> bool:
    """Witness class of known finding F19: the query contains `x ?? y` (for object-typed operands whose
    static types differ - two DML statements, or a view and a type intersection - the result type is a
    freshly derived object type)."""
    if isinstance(t, tuple):
        if t and t[0] == 'coalesce' and len(t) == 3:
            return True
        return any(_dml_coalesce(x) for x in t[1:])
    if isinstance(t, list):
        return any(_dml_coalesce(x) for x in t)
    return False


def f19_witness(args) -> bool:
    LAST.clear()
    sql_ok(*[int(x) for x in args[:5]], False)
    return bool(LAST.get('F19')) and all('descriptors' in p for p in LAST.get('problems', ['descriptors']))


def sql_ok(form: int, a: int, wa: int, b: int, wb: int, exclude_known: bool = True) -> bool:
    EXCLUDE_KNOWN[0] = True if exclude_known else False
    form = concrete_index(form, F.NFORM)
    a, b = concrete_index(a, F.NATOM), concrete_index(b, F.NATOM)
    wa, wb = concrete_index(wa, F.NWRAP), concrete_index(wb, F.NWRAP)
    if min(form, a, b, wa, wb) < 0:
        return True
    with untraced(heavy=True):
        return _sql_ok(form, a, wa, b, wb)


def _sql_ok(form, a, wa, b, wb) -> bool:
    cov.hit('step')
    r = F.query(form, a, wa, b, wb)
    if r is None:
        return True
    t, _kind = r
    LAST.clear()
    probs = check_query(t)
    if probs is None:
        return True
    if probs:
        LAST.update(query=Q.text(t), problems=probs)
        return False
    cov.done('query')
    return True


def sql_raw(form: int, a: int, wa: int, b: int, wb: int, exclude_known: bool = True):
    ok = sql_ok(form, a, wa, b, wb, exclude_known)
    return {'ok': ok, **LAST}


def twin_accepts(a: int, wa: int) -> bool:
    """Reachability twin: a query that is accepted, has parameters and passes."""
    a, wa = concrete_index(a, F.NATOM), concrete_index(wa, F.NWRAP)
    if min(a, wa) < 0:
        return False
    with untraced(heavy=True):
        r = F.query(0, a, wa, 0, 0)
        if r is None:
            return False
        try:
            ir, res, sql = _compile(r[0])
        except Exception:      # noqa: BLE001
            return False
        return bool(res.argmap) and sqlscope.check(res.ast)['status'] == 'ok'


def sql_text_for_seed(pairs):
    """[(form, a, wa, b, wb)] -> {key: sql text}; run in sub-processes with different hash seeds."""
    out = {}
    for key in pairs:
        r = F.query(*key)
        if r is None:
            continue
        try:
            _ir, res, sql = _compile(r[0])
            out[repr(key)] = sql + '\n' + repr(sorted((k, v.index) for k, v in (res.argmap or {}).items()))
        except Exception as e:      # noqa: BLE001
            out[repr(key)] = 'ERR ' + type(e).__name__
    return out
