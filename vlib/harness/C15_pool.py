"""C15 / C16 - the backend connection pool.

Subject: the whole of edb/server/connpool/pool.py (Block, BasePool, Pool)
with rolavg.py, unmodified, running its real coroutines on a deterministic
mini event loop.  connect / disconnect callbacks are harness coroutines that
suspend on a future which the harness completes or fails: the order of
connect/disconnect completions, failures, releases, timer firings and new
requests is a sequence of symbolic choices."""
import asyncio

import vlib.shims  # noqa: F401
from vlib import cov
from vlib.miniloop import MiniLoop

from edb.server.connpool import pool as P
from edb.server.connpool import config as PC
import logging
logging.getLogger("edb.server").disabled = True

try:
    # CrossHair runs a full gc.collect() before every weakref dereference to
    # make weak references deterministic; asyncio's WeakSet of tasks triggers
    # that hundreds of times per path.  Nothing here depends on weak
    # references, so skip the collection (engine tweak, harness-local).
    import crosshair.libimpl.weakreflib as _wl
    _wl.collect = lambda *a: 0
except ImportError:
    pass

SUBJECTS = [
    'edb.server.connpool.pool.Block',
    'edb.server.connpool.pool.BasePool',
    'edb.server.connpool.pool.Pool',
    'file:edb/server/connpool/rolavg.py',
]


from vlib.concrete import untraced, concrete_index


class _Clock:
    now_ms = 0

    @classmethod
    def monotonic(cls):
        return cls.now_ms / 1000.0


P.time = _Clock

DBS = ('a', 'b', 'c')


class ConnectError(Exception):
    pass


class NoSuchDatabase(Exception):
    fields = {'C': '3D000'}


class DisconnectError(Exception):
    pass


class Env:
    def __init__(self, cap):
        self.loop = MiniLoop()
        self.pending = []       # connects in flight: (dbname, future)
        self.disc = []          # disconnects in flight: (conn, future)
        self.live = set()       # opened and not yet closed
        self.broken = set()     # handed back as broken by their holder (count as closed)
        self.nconn = 0
        self.errors = []
        self.pool = P.Pool(connect=self.connect, disconnect=self.disconnect, max_capacity=cap)
        self.pool._loop = self.loop

    async def connect(self, dbname):
        fut = self.loop.create_future()
        self.pending.append((dbname, fut))
        await fut
        self.nconn += 1
        c = (dbname, self.nconn)
        self.live.add(c)
        return c

    async def disconnect(self, conn):
        if conn not in self.live or any(c == conn for c, _f in self.disc):
            self.errors.append('disconnect called for a connection that is not open or is already being closed: %r' % (conn,))
        fut = self.loop.create_future()
        self.disc.append((conn, fut))
        try:
            await fut
        finally:
            # the backend connection is gone whether or not the goodbye failed
            self.live.discard(conn)
            self.broken.discard(conn)


def dt_of(i: int) -> int:
    """Clock increment in ms, from a finite set that straddles every
    threshold in the code (1 ms query time, 10 ms connect time, 1 s log
    batching, 120 s GC age)."""
    if i == 0:
        return 0
    if i == 1:
        return 5
    if i == 2:
        return 20
    return 200000


class Driver:
    def __init__(self, cap: int, ndb: int, fault_level: int = 1):
        """fault_level 0: no injected failures; 1: connect failures;
        2: + "database does not exist" (3D000) and disconnect failures."""
        self.fault_level = fault_level
        _Clock.now_ms = 0
        self.cap = cap
        self.dbs = DBS[:ndb]
        self.env = Env(cap)
        self.held = []          # (dbname, conn)
        self.tasks = []         # (dbname, acquire task)
        self.errors = []        # acquire tasks that ended with an injected connect error
        self.failed_dbs = set()
        self.pruned = set()             # databases on which prune_inactive_connections() was started
        self.failed_after_prune = set() # ... and on which a connect / disconnect failed afterwards
        self.ptasks = []
        self._nexc = 0
        asyncio._set_running_loop(self.env.loop)

    # -- observation -------------------------------------------------------------
    def harvest(self) -> bool:
        """Collect finished acquire() calls; C15(ii): the connection lent is
        open, belongs to the requested database and is lent to nobody else."""
        for db, t in list(self.tasks):
            if t.done():
                self.tasks.remove((db, t))
                if t.cancelled():
                    return False
                e = t.exception()
                if e is not None:
                    if isinstance(e, (ConnectError, NoSuchDatabase)):
                        self.errors.append((db, e))
                        continue
                    return False
                c = t.result()
                for _hd, hc in self.held:
                    if hc == c:
                        return False
                if c not in self.env.live or c in self.env.broken or c[0] != db:
                    return False
                self.held.append((db, c))
        return True

    def monitor(self) -> bool:
        """At quiescence (ready queue empty)."""
        env = self.env
        opened = len(env.live) - len(env.broken)
        # C15(i): open or being opened never exceeds the maximum
        if opened + len(env.pending) > self.cap:
            return False
        # C15(iii): reported usage = open + being opened + being closed
        if env.pool.current_capacity != len(env.live) + len(env.pending):
            return False
        if env.errors:
            return False
        # (exceptions raised inside pool callbacks are logged by the event loop;
        # they are counted in the evidence, the property does not speak of them)
        if len(env.loop.exc) > self._nexc:
            cov.hit('exception in a pool callback', len(env.loop.exc) - self._nexc)
            self._nexc = len(env.loop.exc)
        return True

    # -- actions -------------------------------------------------------------------
    def acts(self):
        env = self.env
        a = []
        for db in self.dbs:
            a.append(('acq', db))
        for h in self.held:
            a.append(('rel', h))
        for h in self.held:
            a.append(('relx', h))
        for p in env.pending:
            a.append(('conn', p))
        if self.fault_level >= 1:
            for p in env.pending:
                a.append(('connfail', p))
        for d in env.disc:
            a.append(('disc', d))
        if self.fault_level >= 2:
            for p in env.pending:
                a.append(('conn3d', p))
            for d in env.disc:
                a.append(('discfail', d))
        for i in range(len(env.loop.timers)):
            a.append(('timer', i))
        if self.fault_level >= 1:
            for db in self.dbs:
                blk = env.pool._blocks.get(db)
                if blk is not None and blk.count_queued_conns():
                    a.append(('prune', db))
            if env.live:
                a.append(('pruneall',))
        return a

    def do(self, a, *, faults=True):
        env = self.env
        k = a[0]
        cov.hit('step')
        if k == 'acq':
            self.tasks.append((a[1], env.loop.create_task(env.pool.acquire(a[1]))))
        elif k == 'rel':
            self.held.remove(a[1])
            env.pool.release(a[1][0], a[1][1])
        elif k == 'relx':
            self.held.remove(a[1])
            env.broken.add(a[1][1])
            env.pool.release(a[1][0], a[1][1], discard=True)
        elif k == 'conn':
            env.pending.remove(a[1])
            a[1][1].set_result(None)
        elif k == 'connfail':
            env.pending.remove(a[1])
            self._saw_failure(a[1][0])
            if a[1][0] in self.pruned:
                self.failed_after_prune.add(a[1][0])
            a[1][1].set_exception(ConnectError('injected'))
        elif k == 'conn3d':
            env.pending.remove(a[1])
            self._saw_failure(a[1][0])
            if a[1][0] in self.pruned:
                self.failed_after_prune.add(a[1][0])
            a[1][1].set_exception(NoSuchDatabase('injected'))
        elif k == 'disc':
            env.disc.remove(a[1])
            a[1][1].set_result(None)
        elif k == 'discfail':
            env.disc.remove(a[1])
            if a[1][0][0] in self.pruned:
                self.failed_after_prune.add(a[1][0][0])
            a[1][1].set_exception(DisconnectError('injected'))
        elif k == 'timer':
            env.loop.fire_timer(a[1])
        elif k == 'prune':
            self.pruned.add(a[1])
            self.ptasks.append(env.loop.create_task(env.pool.prune_inactive_connections(a[1])))
        elif k == 'pruneall':
            # HA failover: every connection is closed, lent ones included;
            # their holders find them dead and do not hand them back
            self.held = []
            self.ptasks.append(env.loop.create_task(env.pool.prune_all_connections()))
        env.loop.run_ready()

    def _saw_failure(self, db):
        """Requests that are waiting on `db` while one of its connects fails:
        the failure must be retried or reported to them."""
        for tdb, t in self.tasks:
            if tdb == db and not t.done():
                self.failed_dbs.add(id(t))

    # -- fair closure (C16) -------------------------------------------------------------
    def settle(self) -> bool:
        env = self.env
        for _ in range(60):
            env.loop.run_ready()
            if not env.pending and not env.disc:
                break
            for p in list(env.pending):
                env.pending.remove(p)
                p[1].set_result(None)
            for d in list(env.disc):
                env.disc.remove(d)
                d[1].set_result(None)
        env.loop.run_ready()
        return self.harvest()

    def close(self):
        env = self.env
        for _, fut in env.pending:
            if not fut.done():
                fut.cancel()
        for _, fut in env.disc:
            if not fut.done():
                fut.cancel()
        for _, t in self.tasks:
            t.cancel()
        for t in self.ptasks:
            t.cancel()
        for b in env.pool._blocks.values():
            for w in list(b.conn_waiters):
                if not w.done():
                    w.cancel()
        env.loop.run_ready()
        asyncio._set_running_loop(None)


def _recipe(d: Driver, ha: int, ia: int, hb: int, ib: int, tick: bool, dt: int, wb: int = 0, wc: int = 0) -> bool:
    """Pre-state built through the public API: ha connections held and ia
    idle on database a, hb held and ib idle on b; optionally one tick."""
    for _ in range(ha + ia):
        d.do(('acq', 'a'))
    for _ in range(hb + ib):
        d.do(('acq', 'b'))
    if not d.settle():
        return False
    ra = rb = 0
    for h in list(d.held):
        if h[0] == 'a' and ra < ia:
            d.do(('rel', h))
            ra += 1
        elif h[0] == 'b' and rb < ib:
            d.do(('rel', h))
            rb += 1
    _Clock.now_ms += dt
    if tick and d.env.loop.timers:
        d.do(('timer', 0))
    # requests queued behind a full pool
    for _ in range(wb):
        d.do(('acq', 'b'))
    for _ in range(wc):
        d.do(('acq', 'c'))
    return d.harvest() and d.monitor()


def stuck_on_waitlist(d: Driver) -> bool:
    """Witness predicate of known finding F8: every request that is still
    blocked after the fair closure belongs to a database block that has no
    connection at all (none open, none being opened), and no connection is
    lent out any more.  In that state the pool only moves connections between
    blocks from release() (wait-list of new blocks, Mode D transfers), and no
    release() will ever come: the capacity was freed by a GC discard /
    disconnect, or the remaining connections sit idle in other blocks."""
    pool = d.env.pool
    stuck = [(db, t) for db, t in d.tasks if not t.done()]
    if not stuck or d.held:
        return False
    for db, t in stuck:
        blk = pool._blocks.get(db)
        if blk is None or blk.count_conns() != 0:
            return False
        if id(t) in d.failed_dbs:
            return False      # a connect failed while this request was waiting: it must be retried or reported
    return True


def stuck_after_aborted_prune(d: Driver) -> bool:
    """Witness predicate of known finding F21: every request that is still blocked after the fair closure waits
    on a database block on which prune_inactive_connections() was started and on which a connect or disconnect
    FAILED afterwards, and nothing is lent out.  (prune takes the idle connections off the stack and waits for
    pending connects before discarding them; a failure in that window - abort_waiters() raising inside the wait,
    a discard that fails - leaves connections in the block that are neither idle nor lent, or capacity that is
    never given back; later requests for that database queue forever.)"""
    stuck = [(db, t) for db, t in d.tasks if not t.done()]
    if not stuck or d.held:
        return False
    for db, t in stuck:
        if db not in d.failed_after_prune:
            return False
    return True


LAST_INFO = {}


def explore(cap: int, ndb: int, ha: int, ia: int, hb: int, ib: int, tick: bool, dti: int,
            c0: int, c1: int, c2: int, c3: int, c4: int, k: int, check_liveness: bool,
            exclude_f8: bool = True, fault_level: int = 1, wb: int = 0, wc: int = 0, strict_f8: bool = False) -> bool:
    """Recipe prefix + k symbolic actions (each followed by running the loop
    to quiescence and the C15 monitor) + fair closure (C16)."""
    # the recipe parameters are concrete in every obligation: run it natively
    with untraced():
        d = Driver(cap, ndb, fault_level)
        dt = dt_of(dti)
        hist = {'waitlisted_during_disconnect': False, 'stuck_waitlisted_below_capacity': False,
                'stuck_strictly_below_capacity': False, 'stuck_after_aborted_prune': False}
        recipe_ok = _recipe(d, ha, ia, hb, ib, tick, dt, wb, wc)
    try:
        if not recipe_ok:
            return False
        cs = [c0, c1, c2, c3, c4]
        for i in range(5):
            if i >= k:
                break
            with untraced():
                acts = d.acts()
                nacts = len(acts)
            ch = concrete_index(cs[i], nacts)      # the symbolic step: which enabled action
            if ch < 0:
                return True          # not a schedule (no such action): nothing to check
            with untraced():
                _Clock.now_ms += dt
                a = acts[ch]
                d.do(a)
                ok = d.harvest() and d.monitor()
            if not ok:
                return False
        cov.done('safety')
        if not check_liveness:
            return True
        # C16 in its bounded safety form: no reachable stuck state.  Fair
        # continuation: everything in flight completes, every holder releases,
        # every timer fires - repeatedly.
        with untraced():
            served = _fair_closure(d, hist)
        if served is None:
            return False
        if not served and exclude_f8 and hist['stuck_waitlisted_below_capacity'] and (
                not strict_f8 or hist['stuck_strictly_below_capacity']):
            # known finding F8, see explore_raw.  strict_f8: only while the pool is strictly below its capacity
            # (the F8 histories free capacity through a discard); a request that starves while every connection
            # sits idle in other blocks at full capacity is not F8: the Mode D rescue in _tick must serve it
            return True
        if not served and exclude_f8 and hist['stuck_after_aborted_prune']:
            return True          # known finding F21, see explore_f21
        return served
    finally:
        LAST_INFO.clear()
        LAST_INFO.update(hist)
        with untraced():
            d.close()


def _fair_closure(d, hist):
    """-> True all served / False somebody still blocked / None monitor failed."""
    if True:
        stall = 0
        ndone = -1
        for rnd in range(60):
            if not d.settle():
                return None
            if not d.tasks:
                break
            left = len(d.tasks)
            stall = stall + 1 if left == ndone else 0
            ndone = left
            if stall >= 8:
                break                # eight fair rounds without anybody being served
            for h in list(d.held):
                d.do(('rel', h))
            for _i in range(len(d.env.loop.timers)):
                d.do(('timer', 0))
            # time passes too: mostly a tick interval, every third round long
            # enough for every time-based hold in the pool to expire
            _Clock.now_ms += 20 if rnd % 3 else 1000000
        if not d.settle() or not d.monitor():
            return None
        served = all(t.done() for _, t in d.tasks)
        if not served:
            hist['stuck_waitlisted_below_capacity'] = stuck_on_waitlist(d)
            hist['stuck_strictly_below_capacity'] = d.env.pool._cur_capacity < d.env.pool._max_capacity
            hist['stuck_after_aborted_prune'] = stuck_after_aborted_prune(d)
        return served


def explore_raw(cap, ndb, ha, ia, hb, ib, tick, dti, c0, c1, c2, c3, c4, k, check_liveness) -> bool:
    return explore(cap, ndb, ha, ia, hb, ib, tick, dti, c0, c1, c2, c3, c4, k, check_liveness, exclude_f8=False)


def explore_f8(cap, ndb, ha, ia, hb, ib, tick, dti, c0, c1, c2, c3, c4, k, check_liveness, fault_level=1) -> bool:
    """True iff the history ends in the F8 witness state."""
    explore(cap, ndb, ha, ia, hb, ib, tick, dti, c0, c1, c2, c3, c4, k, True, exclude_f8=False, fault_level=fault_level)
    return bool(LAST_INFO.get('stuck_waitlisted_below_capacity'))


def explore_f8x(*args) -> bool:
    """Witness predicate of F8 as the driver evaluates it: for an obligation run with strict_f8 (21st argument)
    the history is an F8 instance only if the stuck pool is strictly below its capacity."""
    if len(args) > 19 and args[19]:
        explore(*args[:14], True, False, *args[16:19])
        return bool(LAST_INFO.get('stuck_waitlisted_below_capacity')) and bool(LAST_INFO.get('stuck_strictly_below_capacity'))
    return explore_f8(*args[:15])


def explore_f21(cap, ndb, ha, ia, hb, ib, tick, dti, c0, c1, c2, c3, c4, k, check_liveness, fault_level=2) -> bool:
    """True iff the history ends in the F21 witness state."""
    explore(cap, ndb, ha, ia, hb, ib, tick, dti, c0, c1, c2, c3, c4, k, True, exclude_f8=False, fault_level=fault_level)
    return bool(LAST_INFO.get('stuck_after_aborted_prune'))


def explore_raw2(cap, ndb, ha, ia, hb, ib, tick, dti, c0, c1, c2, c3, c4, k, check_liveness) -> bool:
    """Un-narrowed obligation with connect AND disconnect / 3D000 faults (known finding F21 not excluded)."""
    return explore(cap, ndb, ha, ia, hb, ib, tick, dti, c0, c1, c2, c3, c4, k, check_liveness, exclude_f8=False, fault_level=2)


def connect_failures(cap: int, nwait: int, kind: int, good_first: bool) -> bool:
    """C16, second sentence: when connecting fails until the retries are
    exhausted (or once with 3D000), every waiting request gets the error
    instead of staying blocked."""
    d = Driver(cap, 1)
    try:
        for _ in range(nwait):
            d.do(('acq', 'a'))
        if good_first and d.env.pending:
            d.do(('conn', d.env.pending[0]))
        n = 0
        while d.env.pending and n < 50:
            n += 1
            p = d.env.pending[0]
            d.do(('conn3d', p) if kind == 1 else ('connfail', p))
            if not d.monitor():
                return False
        if not d.harvest():
            return False
        for _ in range(nwait + 2):
            for h in list(d.held):
                d.do(('rel', h))
            if not d.settle():
                return False
        cov.done('connect_failures')
        # nobody is left blocked: each request was served or got the error
        return all(t.done() for _, t in d.tasks) and d.monitor()
    finally:
        d.close()
