"""C05 - backend tables and columns track the schema through every migration.

Subject: the real edb.pgsql.delta (CommandMeta.adapt, the *MetaCommand classes,
their apply()/generate()), edb.pgsql.types (get_pointer_storage_info,
has_table), edb.pgsql.common.get_backend_name, edb.pgsql.dbops, driven the way
edb.server.compiler.ddl._process_delta drives them:

    delta   = ddl.delta_from_ddl(stmt, schema)
    pgdelta = pgsql.delta.CommandMeta.adapt(delta)
    schema  = pgdelta.apply(schema, context)
    pgdelta.generate(block)

The dbops command stream of every accepted command is interpreted on a *ghost
catalog* (tables and their columns); an operation PostgreSQL would refuse
(creating what exists, dropping or altering what does not) is a violation.
After every accepted command the ghost catalog must be exactly the layout the
query compiler will address for the new schema (types.has_table /
get_pointer_storage_info / get_backend_name for every object type and pointer).

A history is a recipe (pre-state) plus symbolic choices from a command menu;
once the choices are made the commands run natively (vlib/concrete.py)."""
import sys
import types as _pytypes

import vlib.shims  # noqa: F401
from vlib import cov
from vlib import schema_kit as K
from vlib.concrete import untraced, concrete_index

# edb.buildmeta wants the distribution's version (versioned backend schema names)
if 'edb._buildmeta' not in sys.modules:
    _bm = _pytypes.ModuleType('edb._buildmeta')
    _bm.VERSION = (7, 0, 0, 1, ())
    sys.modules['edb._buildmeta'] = _bm
    import edb as _edb
    _edb._buildmeta = _bm

from edb.schema import ddl as s_ddl  # noqa: E402
from edb.schema import delta as sd  # noqa: E402
from edb.schema import objtypes as s_objtypes  # noqa: E402
from edb.schema import pointers as s_pointers  # noqa: E402
from edb.pgsql import delta as pgdelta  # noqa: E402
from edb.pgsql import dbops  # noqa: E402
from edb.pgsql import types as pgtypes  # noqa: E402
from edb.pgsql import common as pgcommon  # noqa: E402
from edb.pgsql import params as pgparams  # noqa: E402
from vlib.harness import C04_schema as C04  # noqa: E402

SUBJECTS = [
    'file:edb/pgsql/delta.py', 'file:edb/pgsql/types.py', 'file:edb/pgsql/common.py',
    'file:edb/pgsql/dbops/tables.py', 'file:edb/pgsql/dbops/base.py', 'file:edb/pgsql/dbops/ddl.py',
    'file:edb/pgsql/dbops/composites.py', 'file:edb/schema/delta.py', 'file:edb/schema/ddl.py',
]

_RP = pgparams.get_default_runtime_params()
TYPES = C04.TYPES


class GhostError(Exception):
    """An operation PostgreSQL would refuse."""


class Catalog:
    def __init__(self, tables=None):
        self.tables = {k: dict(v) for k, v in (tables or {}).items()}
        self.opaque = []

    def copy(self):
        return Catalog(self.tables)

    @staticmethod
    def _t(name):
        return tuple(name)

    @staticmethod
    def _ty(t):
        if isinstance(t, (tuple, list)):
            return '.'.join(str(x) for x in t)
        return str(t)

    def create(self, name, columns):
        name = self._t(name)
        if name in self.tables:
            raise GhostError(f'CREATE TABLE {name}: table already exists')
        self.tables[name] = {}
        for c in columns:
            self.add_column(name, c)

    def drop(self, name):
        name = self._t(name)
        if name not in self.tables:
            raise GhostError(f'DROP TABLE {name}: no such table')
        del self.tables[name]

    def need(self, name):
        name = self._t(name)
        if name not in self.tables:
            raise GhostError(f'ALTER TABLE {name}: no such table')
        return self.tables[name]

    def add_column(self, name, col):
        t = self.need(name)
        if col.name in t:
            raise GhostError(f'ALTER TABLE {tuple(name)} ADD COLUMN {col.name}: column already exists')
        t[col.name] = {'type': self._ty(col.type), 'required': bool(col.required)}

    def drop_column(self, name, colname):
        t = self.need(name)
        if colname not in t:
            raise GhostError(f'ALTER TABLE {tuple(name)} DROP COLUMN {colname}: no such column')
        del t[colname]

    def alter_null(self, name, colname, null):
        t = self.need(name)
        if colname not in t:
            raise GhostError(f'ALTER TABLE {tuple(name)} ALTER COLUMN {colname}: no such column')
        t[colname]['required'] = not null

    def alter_type(self, name, colname, new_type):
        t = self.need(name)
        if colname not in t:
            raise GhostError(f'ALTER TABLE {tuple(name)} ALTER COLUMN {colname} TYPE: no such column')
        t[colname]['type'] = self._ty(new_type)

    # conditions
    def cond(self, c):
        if isinstance(c, dbops.TableExists):
            return self._t(c.name) in self.tables
        if isinstance(c, dbops.ColumnExists):
            return self._t(c.table_name) in self.tables and c.column_name in self.tables[self._t(c.table_name)]
        return None

    def conds_hold(self, op, conds=None, negs=None):
        conds = list(conds if conds is not None else (getattr(op, 'conditions', None) or ()))
        negs = list(negs if negs is not None else (getattr(op, 'neg_conditions', None) or ()))
        for c in conds:
            v = self.cond(c)
            if v is None:
                self.opaque.append('condition %r' % (c,))
                v = True
            if not v:
                return False
        for c in negs:
            v = self.cond(c)
            if v is None:
                self.opaque.append('neg condition %r' % (c,))
                v = False
            if v:
                return False
        return True


_DDL_WORDS = ('ALTER TABLE', 'DROP TABLE', 'CREATE TABLE', 'ADD COLUMN', 'DROP COLUMN', 'RENAME TO', 'RENAME COLUMN')


def execute(op, cat: Catalog):
    """Interprets one node of the backend command tree in generate() order."""
    if isinstance(op, pgdelta.MetaCommand):
        for o in op.pgops:
            execute(o, cat)
        return
    if isinstance(op, sd.Command):
        return          # plain schema command without backend operations
    if isinstance(op, dbops.CreateTable):
        if cat.conds_hold(op):
            cat.create(op.table.name, list(op.table.iter_columns()))
        return
    if isinstance(op, dbops.DropTable):
        if cat.conds_hold(op):
            cat.drop(op.name)
        return
    if isinstance(op, dbops.AlterTable):
        if not cat.conds_hold(op):
            return
        conditional = [c for c in op.commands if isinstance(c, tuple) and (c[1] or c[2])]
        plain = [c[0] if isinstance(c, tuple) else c for c in op.commands if not (isinstance(c, tuple) and (c[1] or c[2]))]
        for frag, conds, negs in conditional:
            if cat.conds_hold(frag, conds or (), negs or ()):
                _fragment(op.name, frag, cat)
        if plain:
            cat.need(op.name)
        for frag in plain:
            _fragment(op.name, frag, cat)
        return
    if isinstance(op, dbops.CommandGroup):
        if cat.conds_hold(op):
            for o in op.commands:
                execute(o, cat)
        return
    if isinstance(op, dbops.Query):
        text = ' '.join(str(op.text).upper().split())
        if any(w in text for w in _DDL_WORDS):
            cat.opaque.append('raw SQL with table DDL: ' + text[:120])
        return
    name = type(op).__name__
    if 'Table' in name and name not in ('TableExists',) and not name.startswith(('CreateIndex', 'DropIndex')):
        # RenameTable, AlterTableRenameTo, ...: storage-changing operations this interpreter does not know
        if name in ('AlterTableRenameTo', 'AlterTableRenameColumn', 'AlterTableSetSchema'):
            cat.opaque.append('unmodelled table operation ' + name)
    return


def _fragment(tname, frag, cat: Catalog):
    if isinstance(frag, dbops.AlterTableAddColumn):
        cat.add_column(tname, frag.attribute)
    elif isinstance(frag, dbops.AlterTableDropColumn):
        cat.drop_column(tname, frag.attribute.name)
    elif isinstance(frag, dbops.AlterTableAlterColumnNull):
        cat.alter_null(tname, frag.column_name, frag.null)
    elif isinstance(frag, dbops.AlterTableAlterColumnType):
        cat.alter_type(tname, frag.attribute_name, frag.new_type)
    elif type(frag).__name__ in ('AlterTableRenameTo', 'AlterTableRenameColumn', 'AlterTableSetSchema'):
        cat.opaque.append('unmodelled table operation ' + type(frag).__name__)
    else:
        cat.need(tname)       # constraints, defaults, parents: the table must exist


# ---- what the query compiler will address -------------------------------------------------

def expected_layout(schema):
    """{table: {column: type}} for every user object type / pointer that needs storage,
    computed with the functions the query compiler uses."""
    out = {}

    def table_of(obj):
        return tuple(pgcommon.get_backend_name(schema, obj, catenate=False))

    objs = [o for o in schema.get_objects(type=s_objtypes.ObjectType)
            if str(o.get_name(schema)).startswith('default::')]
    for t in objs:
        if pgtypes.has_table(t, schema):
            out.setdefault(table_of(t), {})
    for t in objs:
        for ptr in t.get_pointers(schema).objects(schema):
            if ptr.is_pure_computable(schema) or ptr.get_is_derived(schema):
                continue
            _pointer_layout(schema, ptr, out, table_of)
    return out


def _pointer_layout(schema, ptr, out, table_of):
    src = ptr.get_source(schema)
    if pgtypes.has_table(src, schema):
        try:
            info = pgtypes.get_pointer_storage_info(ptr, schema=schema, link_bias=False)
        except Exception:
            info = None
        if info is not None and info.table_type == 'ObjectType' and info.table_name is not None:
            out.setdefault(tuple(info.table_name), {})[info.column_name] = Catalog._ty(info.column_type)
    if pgtypes.has_table(ptr, schema):
        tn = table_of(ptr)
        cols = out.setdefault(tn, {})
        cols.setdefault('source', 'uuid')
        info = pgtypes.get_pointer_storage_info(ptr, schema=schema, link_bias=True)
        cols[info.column_name] = Catalog._ty(info.column_type)
        if isinstance(ptr, s_pointers.Pointer) and hasattr(ptr, 'get_pointers'):
            for lp in ptr.get_pointers(schema).objects(schema):
                sn_ = lp.get_shortname(schema).name
                if sn_ in ('source', 'target') or lp.is_pure_computable(schema):
                    continue
                li = pgtypes.get_pointer_storage_info(lp, schema=schema)
                cols[li.column_name] = Catalog._ty(li.column_type)


def layout_problems(schema, cat: Catalog):
    exp = expected_layout(schema)
    got = {k: {c: v['type'] for c, v in cols.items()} for k, cols in cat.tables.items()}
    probs = []
    names = _names(schema)
    for t in sorted(set(exp) | set(got)):
        if t not in got:
            probs.append(f'no table for {names.get(t[1], t)} (the query compiler addresses {t})')
        elif t not in exp:
            probs.append(f'orphan table {t}: no schema object uses it')
        else:
            for c in sorted(set(exp[t]) | set(got[t])):
                if c not in got[t]:
                    probs.append(f'table of {names.get(t[1], t)}: no column for {names.get(c, c)} ({c})')
                elif c not in exp[t]:
                    probs.append(f'table of {names.get(t[1], t)}: orphan column {c}')
                elif exp[t][c] != got[t][c]:
                    probs.append(f'table of {names.get(t[1], t)}: column {names.get(c, c)} has type {got[t][c]}, '
                                 f'the query compiler expects {exp[t][c]}')
    return probs


def _names(schema):
    out = {}
    for o in schema.get_objects(type=s_objtypes.ObjectType):
        out[str(o.id)] = str(o.get_name(schema))
        try:
            for p in o.get_pointers(schema).objects(schema):
                out[str(p.id)] = f'{o.get_name(schema)}.{p.get_shortname(schema).name}'
        except Exception:
            pass
    return out


# ---- driving ---------------------------------------------------------------------------

class _PgRoute:
    """While active, schema_kit.ddl() sends every DDL node through the backend delta as well."""

    def __init__(self):
        self.cat = Catalog()
        self.events = []

    def __enter__(self):
        self._old = K.ddl
        K.ddl = self.ddl
        return self

    def __exit__(self, *a):
        K.ddl = self._old

    def ddl(self, schema, node):
        delta = s_ddl.delta_from_ddl(node, schema=schema, modaliases={None: 'default'})
        pgd = pgdelta.CommandMeta.adapt(delta)
        ctx = sd.CommandContext(backend_runtime_params=_RP, modaliases={None: 'default'})
        schema2 = pgd.apply(schema, ctx)
        block = dbops.PLTopBlock()
        pgd.generate(block)            # the real SQL generation must not fail either
        block.to_string()
        cat = self.cat.copy()
        execute(pgd, cat)              # GhostError propagates: the emitted operations are not executable
        self.cat = cat
        return schema2


_PG_BASE = None


def pg_base_schema():
    """std stand-in + std::sequence (looked up by the backend for every new property)."""
    global _PG_BASE
    if _PG_BASE is None:
        _PG_BASE = K.base_schema()
    return _PG_BASE


def _extra_menu():
    m = []
    for t in TYPES:
        m.append((f'alter property {t}.p set multi', lambda s, t=t: K.ddl(s, _alter_ptr_card(t, 'p', False, True))))
        m.append((f'alter property {t}.p set single', lambda s, t=t: K.ddl(s, _alter_ptr_card(t, 'p', False, False))))
        m.append((f'alter property {t}.p set optional', lambda s, t=t: K.set_pointer_required(s, t, 'p', False)))
        m.append((f'alter link {t}.l set multi', lambda s, t=t: K.ddl(s, _alter_ptr_card(t, 'l', True, True))))
        m.append((f'alter link {t}.m set single', lambda s, t=t: K.ddl(s, _alter_ptr_card(t, 'm', True, False))))
        m.append((f'alter {t} drop abstract', lambda s, t=t: K.set_type_field(s, t, 'abstract', False)))
        m.append((f'create multi property {t}.tags -> str', lambda s, t=t: K.create_property(s, t, 'tags', multi=True)))
        m.append((f'drop property {t}.tags', lambda s, t=t: K.drop_pointer(s, t, 'tags')))
        m.append((f'drop link {t}.m', lambda s, t=t: K.drop_pointer(s, t, 'm', link=True)))
        for lp in ('a', 'b'):
            m.append((f'create link property {t}.l@{lp} -> str', lambda s, t=t, lp=lp: K.ddl(s, _link_prop(t, 'l', lp, True))))
            m.append((f'drop link property {t}.l@{lp}', lambda s, t=t, lp=lp: K.ddl(s, _link_prop(t, 'l', lp, False))))
        m.append((f'create link property {t}.m@a -> str', lambda s, t=t: K.ddl(s, _link_prop(t, 'm', 'a', True))))
    return m


def _link_prop(typ, lname, pname, create):
    from edb.edgeql import ast as qlast
    ref = qlast.ObjectRef(name=pname, itemclass=K.OC.PROPERTY)
    if create:
        cmd = qlast.CreateConcreteProperty(name=ref, target=K._tn('std::str'), is_required=False, cardinality=None, commands=[])
    else:
        cmd = qlast.DropConcreteProperty(name=ref)
    return K._alter_ptr(typ, lname, True, cmd)


def _alter_ptr_card(typ, pname, link, multi):
    # the node the grammar builds for ALTER ... SET MULTI / SET SINGLE (parser/grammar/ddl.py SetCardinalityStmt)
    from edb.edgeql import ast as qlast
    from edb.edgeql import qltypes
    card = qltypes.SchemaCardinality.Many if multi else qltypes.SchemaCardinality.One
    return K._alter_ptr(typ, pname, link, qlast.SetPointerCardinality(
        name='cardinality', value=qlast.Constant.string(card), special_syntax=True))


MENU = [(label, fn) for label, fn in C04.MENU if 'union_of' not in label] + _extra_menu()
NMENU = len(MENU)
_LABEL = {label: i for i, (label, _f) in enumerate(MENU)}

RECIPES = dict(C04.RECIPES)
RECIPES[6] = ['create default::T0', 'create multi property default::T0.tags -> str',
              'create default::T1 extending default::T0', 'create link default::T1.l -> default::T0']
RECIPES[8] = ['create default::T0', 'create default::T1', 'create link default::T0.l -> default::T1',
              'create link property default::T0.l@a -> str', 'create default::T2 extending default::T0']
RECIPES[7] = ['create abstract default::T0', 'create property default::T0.p -> str',
              'create default::T1 extending default::T0', 'create default::T2 extending default::T0',
              'create multi link default::T1.m -> default::T1']

_RECIPE_CACHE = {}


def recipe_state(r):
    """(schema, catalog) after building recipe r through the backend route."""
    if r not in _RECIPE_CACHE:
        st = K.id_state()
        K.reset_ids(0, start=r * 10000)
        try:
            with _PgRoute() as route:
                s = pg_base_schema()
                for label in RECIPES[r]:
                    s = MENU[_LABEL[label]][1](s)
                _RECIPE_CACHE[r] = (s, route.cat)
        finally:
            K.restore_ids(st)
    s, cat = _RECIPE_CACHE[r]
    return s, cat.copy()


LAST = {}


def history(recipe: int, k: int, c0: int, c1: int, c2: int, c3: int) -> bool:
    """After every accepted command the ghost catalog is the layout the query compiler addresses."""
    recipe = concrete_index(recipe, len(RECIPES))
    k = concrete_index(k, 5)
    cs = []
    for c in (c0, c1, c2, c3):
        if len(cs) >= k:
            break
        cs.append(concrete_index(c, NMENU))
    if recipe < 0 or k < 0 or any(c < 0 for c in cs):
        return True
    with untraced(heavy=True):
        return _history(recipe, cs)


def _history(recipe, cs) -> bool:
    K.reset_ids(0)
    s, cat = recipe_state(recipe)
    log = list(RECIPES[recipe])
    probs = layout_problems(s, cat)
    if probs:
        LAST.update(log=log, problems=probs)
        return False
    with _PgRoute() as route:
        route.cat = cat
        for c in cs:
            label, fn = MENU[c]
            cov.hit('step')
            try:
                s2 = fn(s)
            except GhostError as e:
                LAST.update(log=log + [label], problems=['emitted backend operations cannot be executed: ' + str(e)])
                cov.hit('ghost error')
                return False
            except RecursionError:
                cov.hit('rejected')
                log.append(label + ' -- rejected (RecursionError)')
                continue
            except Exception as e:      # noqa: BLE001   rejected command: nothing is executed, the transaction rolls back
                cov.hit('rejected')
                if not _is_user_error(e):
                    cov.hit('backend adaptation error ' + type(e).__name__)
                log.append(label + ' -- rejected: ' + type(e).__name__)
                continue
            cov.hit('accepted')
            log.append(label)
            s = s2
            if route.cat.opaque:
                cov.hit('opaque operation')
                LAST.update(log=log, problems=['(not decided) ' + route.cat.opaque[0]])
                return True           # storage changed by something the interpreter cannot follow: outside the claim
            probs = layout_problems(s, route.cat)
            if probs:
                LAST.update(log=log, problems=probs)
                return False
    cov.done('history')
    LAST.update(log=log, problems=[])
    return True


_ACCEPTED = {}


def accepted_first(recipe):
    """Menu commands the recipe state accepts (a rejected command leaves schema and catalog
    untouched, so a history with a rejected non-final command equals the history without it)."""
    if recipe not in _ACCEPTED:
        acc = []
        for c in range(NMENU):
            s, cat = recipe_state(recipe)
            with _PgRoute() as route:
                route.cat = cat
                try:
                    MENU[c][1](s)
                    acc.append(c)
                except GhostError:
                    acc.append(c)
                except BaseException:      # noqa: BLE001
                    pass
        _ACCEPTED[recipe] = acc
    return _ACCEPTED[recipe]


def history_after_accepted(recipe: int, k: int, i0: int, c1: int, c2: int) -> bool:
    """history() whose first command is the i0-th command the recipe state accepts."""
    recipe = concrete_index(recipe, len(RECIPES))
    k = concrete_index(k, 4)
    if recipe < 0 or k < 1:
        return True
    with untraced(heavy=True):
        acc = accepted_first(recipe)
    i0 = concrete_index(i0, len(acc))
    if i0 < 0:
        return True
    cs = [acc[i0]]
    for c in (c1, c2):
        if len(cs) >= k:
            break
        cs.append(concrete_index(c, NMENU))
    if any(c < 0 for c in cs):
        return True
    with untraced(heavy=True):
        return _history(recipe, cs)


def _is_user_error(e):
    from edb import errors
    return isinstance(e, errors.EdgeDBError)


def history_raw(recipe: int, k: int, c0: int, c1: int, c2: int, c3: int):
    ok = history(recipe, k, c0, c1, c2, c3)
    return {'ok': ok, **LAST}


def twin_witness(c0: int) -> bool:
    """Reachability twin: an accepted command that creates storage."""
    c0 = concrete_index(c0, NMENU)
    if c0 < 0:
        return True
    with untraced(heavy=True):
        s, cat = recipe_state(1)
        n0 = sum(len(v) for v in cat.tables.values()) + len(cat.tables)
        with _PgRoute() as route:
            route.cat = cat
            try:
                MENU[c0][1](s)
            except Exception:     # noqa: BLE001
                return False
            n1 = sum(len(v) for v in route.cat.tables.values()) + len(route.cat.tables)
        return n1 > n0
