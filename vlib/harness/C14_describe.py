"""C14 (first sentence) - the binary type descriptors of a compiled query decode to
the names, element order, cardinalities and element types of its result shape
and parameters, for every protocol version served; equal descriptor ids imply
byte-identical descriptors.

Subject: the real server query path (compiler._compile_ql_query: EdgeQL
compiler -> sertypes.describe / describe_params) on the queries of
vlib/harness/Q_family.py, and sertypes.parse on what it produced."""
import types

import immutables

import vlib.shims  # noqa: F401
from vlib import cov
from vlib import query_kit as Q
from vlib.concrete import untraced, concrete_index
from vlib.harness import Q_family as F

from edb import errors
from edb.schema import schema as s_schema
from edb.schema import objtypes as s_objtypes
from edb.server import config
from edb.server.compiler import compiler as C
from edb.server.compiler import dbstate, enums, sertypes
from edb.pgsql import params as pgparams

SUBJECTS = ['file:edb/server/compiler/sertypes.py', 'edb.server.compiler.compiler._compile_ql_query',
            'edb.server.compiler.compiler._get_compile_options' if hasattr(C, '_get_compile_options') else 'file:edb/server/compiler/compiler.py']

PROTOS = [(1, 0), (2, 0), (3, 0)]
_RP = pgparams.get_default_runtime_params()
_CSTATE = types.SimpleNamespace(std_schema=s_schema.EMPTY_SCHEMA, config_spec=config.FlatSpec(), backend_runtime_params=_RP)
EMPTY = immutables.Map()
LAST = {}
_SEEN = {}          # descriptor id -> (bytes, query): equal ids must mean identical bytes (per process = per obligation)


def _ctx(proto):
    state = dbstate.CompilerConnectionState(
        user_schema=Q.user_schema(), global_schema=s_schema.EMPTY_SCHEMA, modaliases=immutables.Map({None: 'default'}),
        session_config=EMPTY, database_config=EMPTY, system_config=EMPTY, cached_reflection=EMPTY)
    return C.CompileContext(compiler_state=_CSTATE, state=state, output_format=enums.OutputFormat.BINARY,
                            expected_cardinality_one=False, protocol_version=proto, backend_runtime_params=_RP)


def _scalar_name(t, schema):
    cur, n = t, 0
    while not str(cur.get_name(schema)).startswith('std::') and n < 8:
        bases = list(cur.get_bases(schema).objects(schema))
        if not bases:
            break
        cur, n = bases[0], n + 1
    return str(cur.get_name(schema))


def expected(stype, ir):
    """Structure of the result type according to the IR: what the descriptor has to say."""
    schema = ir.schema
    if stype.is_tuple(schema):
        subs = list(stype.get_subtypes(schema))
        if stype.is_named(schema):
            return ('ntuple', list(zip(stype.get_element_names(schema), [expected(s, ir) for s in subs])))
        return ('tuple', [expected(s, ir) for s in subs])
    if isinstance(stype, s_objtypes.ObjectType):
        ptrs = ir.view_shapes.get(stype, ())
        fields = []
        for ptr in ptrs:
            name = ptr.get_shortname(schema).name
            tgt = ptr.get_target(schema)
            req, single = bool(ptr.get_required(schema)), bool(ptr.singular(schema))
            card = {(True, True): 'ONE', (False, True): 'AT_MOST_ONE', (True, False): 'AT_LEAST_ONE',
                    (False, False): 'MANY'}[(req, single)]
            fields.append((name, card, expected(tgt, ir)))
        return ('shape', fields)
    return ('scalar', _scalar_name(stype, schema))


def parsed(desc, proto):
    if isinstance(desc, sertypes.SetDesc):
        return parsed(desc.subtype, proto)
    if isinstance(desc, sertypes.ShapeDesc):
        return ('shape', [(n, desc.cardinalities[n].name, parsed(d, proto)) for n, d in desc.fields.items()])
    if isinstance(desc, sertypes.NamedTupleDesc):
        return ('ntuple', [(n, parsed(d, proto)) for n, d in desc.fields.items()])
    if isinstance(desc, sertypes.TupleDesc):
        return ('tuple', [parsed(d, proto) for d in desc.fields])
    if isinstance(desc, sertypes.BaseScalarDesc):
        from edb.schema import objects as s_obj
        known = {s_obj.get_known_type_id(n): n for n in ('std::str', 'std::int64', 'std::bool', 'std::uuid', 'std::json')}
        return ('scalar', desc.name if desc.name else known.get(desc.tid, str(desc.tid)))
    return ('other', type(desc).__name__)


def _cmp(e, p, path, out):
    if e[0] != p[0]:
        out.append(f'{path}: query has {e[0]}, descriptor says {p[0]}')
        return
    if e[0] == 'scalar':
        if e[1] != p[1]:
            out.append(f'{path}: query has {e[1]}, descriptor says {p[1]}')
    elif e[0] == 'shape':
        en = [(n, c) for n, c, _ in e[1]]
        pn = [(n, c) for n, c, _ in p[1]]
        if en != pn:
            out.append(f'{path}: shape elements (name, cardinality) {en}, descriptor says {pn}')
        else:
            for (n, _c, es), (_n, _c2, ps) in zip(e[1], p[1]):
                _cmp(es, ps, path + '.' + n, out)
    elif e[0] == 'tuple':
        if len(e[1]) != len(p[1]):
            out.append(f'{path}: tuple of {len(e[1])}, descriptor says {len(p[1])}')
        else:
            for i, (es, ps) in enumerate(zip(e[1], p[1])):
                _cmp(es, ps, f'{path}.{i}', out)
    elif e[0] == 'ntuple':
        if [n for n, _ in e[1]] != [n for n, _ in p[1]]:
            out.append(f'{path}: named tuple {[n for n, _ in e[1]]}, descriptor says {[n for n, _ in p[1]]}')


def descriptor_faithful(form: int, a: int, wa: int, b: int, wb: int, proto: int) -> bool:
    form = concrete_index(form, 3)
    a, b = concrete_index(a, F.NATOM), concrete_index(b, F.NATOM)
    wa, wb = concrete_index(wa, F.NWRAP), concrete_index(wb, F.NWRAP)
    proto = concrete_index(proto, len(PROTOS))
    if min(form, a, b, wa, wb, proto) < 0:
        return True
    with untraced(heavy=True):
        return _faithful(form, a, wa, b, wb, PROTOS[proto])


def _faithful(form, a, wa, b, wb, proto) -> bool:
    cov.hit('step')
    r = F.query(form, a, wa, b, wb)
    if r is None:
        return True
    t, _k = r
    LAST.clear()
    captured = []
    orig = C.qlcompiler.compile_ast_to_ir

    def spy(*a, **kw):
        ir_ = orig(*a, **kw)
        captured.append(ir_)
        return ir_
    try:
        C.qlcompiler.compile_ast_to_ir = spy
        try:
            q = C._compile_ql_query(_ctx(proto), Q.as_statement(t))
        finally:
            C.qlcompiler.compile_ast_to_ir = orig
        ir = captured[-1]
    except errors.InternalServerError:
        cov.hit('internal compiler error')
        return True
    except errors.EdgeDBError:
        cov.hit('rejected')
        return True
    except AssertionError as e:
        if 'protocol' in str(e):
            cov.hit('not describable in this protocol version')
            return True
        raise
    probs = []
    # output descriptor
    try:
        desc = sertypes.parse(q.out_type_data, proto)
    except Exception as e:      # noqa: BLE001
        probs.append(f'output descriptor does not parse back under protocol {proto}: {type(e).__name__}: {e}')
        desc = None
    if desc is not None:
        if desc.tid.bytes != q.out_type_id:
            probs.append('id of the last descriptor in the stream differs from out_type_id')
        # the IR of _compile_ql_query is not returned: compare with a second compilation of the same tree
        _cmp(expected(ir.stype, ir), parsed(desc, proto), 'result', probs)
    # input descriptor
    try:
        if not q.in_type_data:
            idesc = None
            if ir.params:
                probs.append(f'the query has parameters {[p.name for p in ir.params]} but the input descriptor is empty')
        else:
            idesc = sertypes.parse(q.in_type_data, proto)
        if idesc is None:
            pass
        elif isinstance(idesc, sertypes.ShapeDesc):
            want = [(p.name, 'ONE' if p.required else 'AT_MOST_ONE', ('scalar', _scalar_name(p.schema_type, ir.schema)))
                    for p in ir.params]
            got = [(n, idesc.cardinalities[n].name, parsed(d, proto)) for n, d in idesc.fields.items()]
            if sorted(want) != sorted(got):
                probs.append(f'parameters {sorted(want)}, input descriptor says {sorted(got)}')
        elif ir.params:
            probs.append(f'the query has parameters {[p.name for p in ir.params]} but the input descriptor is {type(idesc).__name__}')
    except Exception as e:      # noqa: BLE001
        probs.append(f'input descriptor does not parse back under protocol {proto}: {type(e).__name__}: {e}')
    # equal ids => identical bytes (against the reference queries and the queries seen so far in this process)
    _load_references(proto)
    for tid, data, what in ((q.out_type_id, q.out_type_data, 'out'), (q.in_type_id, q.in_type_data, 'in')):
        key = (proto, what, bytes(tid))
        if key in _SEEN and _SEEN[key][0] != bytes(data):
            if what == 'out' and (_has_coalesce(t) or _has_coalesce(_SEEN[key][2])):       # known finding F19 (C13)
                pass
            elif _differ_only_in_derived_tuple_names(_SEEN[key][0], bytes(data), proto):
                cov.hit('F20 pattern')
                LAST['F20'] = True
                if not EXCLUDE_KNOWN[0]:
                    probs.append(f'{what}_type_id {bytes(tid).hex()[:12]} was already used for descriptor bytes that differ in the '
                                 f'tuple name (a derived view name leaks into it) by: {_SEEN[key][1][:120]}')
            else:
                probs.append(f'{what}_type_id {bytes(tid).hex()[:12]} was already used for different descriptor bytes by: {_SEEN[key][1][:120]}')
        else:
            _SEEN[key] = (bytes(data), Q.text(t), t)
    if probs:
        LAST.update(query=Q.text(t), protocol=proto, problems=probs)
        return False
    cov.done('query')
    return True


EXCLUDE_KNOWN = [True]
_REFS_LOADED = set()


def _load_references(proto):
    """A fixed set of reference queries whose descriptors are registered first in every process, so that a
    clash "same id, different bytes" does not depend on which queries this process happened to run before
    (a counterexample is replayed in a fresh process)."""
    if proto in _REFS_LOADED:
        return
    _REFS_LOADED.add(proto)
    refs = [F.ATOMS[a][0] for a in range(F.NATOM)]
    refs += [('tuple', F.ATOMS[a][0], ('str', 'c')) for a in (3, 4, 6, 15, 16, 17, 18, 19)]
    refs += [('tuple', ('param', 's', 'std::str', o1), ('param', 'n', 'std::int64', o2)) for o1 in (False, True) for o2 in (False, True)]
    for t in refs:
        try:
            q = C._compile_ql_query(_ctx(proto), Q.as_statement(t))
        except Exception:      # noqa: BLE001
            continue
        for tid, data, what in ((q.out_type_id, q.out_type_data, 'out'), (q.in_type_id, q.in_type_data, 'in')):
            key = (proto, what, bytes(tid))
            if key not in _SEEN:
                _SEEN[key] = (bytes(data), Q.text(t), t)


def _strip_names(d):
    """The parsed descriptor without the names of (named) tuple descriptors."""
    if isinstance(d, sertypes.SetDesc):
        return ('set', _strip_names(d.subtype))
    if isinstance(d, sertypes.ShapeDesc):
        return ('shape', [(n, d.cardinalities[n].name, d.flags.get(n), _strip_names(x)) for n, x in d.fields.items()])
    if isinstance(d, sertypes.NamedTupleDesc):
        return ('ntuple', str(d.tid), [(n, _strip_names(x)) for n, x in d.fields.items()])
    if isinstance(d, sertypes.TupleDesc):
        return ('tuple', str(d.tid), [_strip_names(x) for x in d.fields])
    return ('leaf', type(d).__name__, str(d.tid), getattr(d, 'name', None))


def _tuple_names(d, acc):
    if isinstance(d, sertypes.SetDesc):
        _tuple_names(d.subtype, acc)
    elif isinstance(d, sertypes.ShapeDesc):
        for x in d.fields.values():
            _tuple_names(x, acc)
    elif isinstance(d, (sertypes.TupleDesc, sertypes.NamedTupleDesc)):
        acc.append(d.name or '')
        for x in (d.fields.values() if isinstance(d.fields, dict) else d.fields):
            _tuple_names(x, acc)


def _differ_only_in_derived_tuple_names(b1, b2, proto) -> bool:
    """Witness class of known finding F20: the two byte strings decode to the same structure and differ only in
    the `name` of a tuple descriptor, one of which mentions a derived view (`__derived__`)."""
    try:
        d1, d2 = sertypes.parse(b1, proto), sertypes.parse(b2, proto)
    except Exception:      # noqa: BLE001
        return False
    if _strip_names(d1) != _strip_names(d2):
        return False
    n1, n2 = [], []
    _tuple_names(d1, n1)
    _tuple_names(d2, n2)
    return n1 != n2 and any('__derived__' in n for n in n1 + n2)


def f20_witness(args) -> bool:
    LAST.clear()
    tuple_name_stable(int(args[0]))
    return bool(LAST.get('F20'))


def tuple_name_stable(which: int) -> bool:
    """Known finding F20 re-derived: the same tuple type id must come with the same descriptor bytes whether or
    not an element is reached through a FOR / WITH view."""
    which = concrete_index(which, 2)
    if which < 0:
        return True
    with untraced(heavy=True):
        with_view = [('for', 'x', ('distinct', ('set', ('str', 'a'), ('str', 'b'))), ('tuple', ('var', 'x'), ('path', F.P, 'name'))),
                     ('with', 'v', ('path', F.P, 'nick'), ('select', ('tuple', ('var', 'v'), ('str', 'c')), None))][which]
        plain = ('tuple', ('path', F.P, 'name'), ('str', 'c'))
        qs = [C._compile_ql_query(_ctx((3, 0)), Q.as_statement(t)) for t in (plain, with_view)]
        if bytes(qs[0].out_type_id) == bytes(qs[1].out_type_id) and bytes(qs[0].out_type_data) != bytes(qs[1].out_type_data):
            LAST.update(F20=_differ_only_in_derived_tuple_names(bytes(qs[0].out_type_data), bytes(qs[1].out_type_data), (3, 0)))
            return False
        return True


def _has_coalesce(t):
    if isinstance(t, tuple):
        return (bool(t) and t[0] == 'coalesce') or any(_has_coalesce(x) for x in t[1:])
    if isinstance(t, list):
        return any(_has_coalesce(x) for x in t)
    return False


def faithful_raw(form, a, wa, b, wb, proto):
    ok = descriptor_faithful(form, a, wa, b, wb, proto)
    return {'ok': ok, **({} if ok else LAST)}


def twin_shape(a: int) -> bool:
    """Reachability twin: a shape query whose descriptor parses to a shape with elements."""
    a = concrete_index(a, 3)
    if a < 0:
        return False
    with untraced(heavy=True):
        r = F.query(0, a, 10, 0, 0)
        if r is None:
            return False
        try:
            q = C._compile_ql_query(_ctx((3, 0)), Q.as_statement(r[0]))
            d = sertypes.parse(q.out_type_data, (3, 0))
        except Exception:      # noqa: BLE001
            return False
        p = parsed(d, (3, 0))
        return p[0] == 'shape' and len(p[1]) >= 3
