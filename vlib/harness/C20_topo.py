"""C20 - dependency ordering (edb.common.topological).

E1 harness: the graph is a symbolic labelling of ordered pairs over the keys
0..N-1 (plus key N that is *not* in the graph, for unresolved references);
label 0 none, 1 hard (deps), 2 soft (weak_deps), 3 merge, 4 loop_control.
Oracle: reachability over hard = deps + merge, computed by the harness."""
import vlib.shims  # noqa: F401
from vlib import cov
from vlib.concrete import untraced, concrete_index, concrete_bool

from edb.common import topological as T
from edb.common.ordered import OrderedSet

SUBJECTS = [
    'edb.common.topological.sort_ex',
    'edb.common.topological.sort',
    'edb.common.topological.normalize',
    'edb.common.topological.DepGraphEntry',
    'edb.common.ordered.OrderedSet',
]


def build(n: int, labels, fill_after: bool):
    """labels[i][j] for i in 0..n-1, j in 0..n (column n = the missing key).
    fill_after: hand empty OrderedSets to the constructor and add the edges
    afterwards through the caller's own reference (as schema/ordering.py does)."""
    g = {}
    sets = {}
    for i in range(n):
        d, w, m, lc = OrderedSet(), OrderedSet(), OrderedSet(), OrderedSet()
        sets[i] = (d, w, m, lc)
        if not fill_after:
            _fill(i, n, labels, d, w, m, lc)
        g[i] = T.DepGraphEntry(item='item%d' % i, deps=d, weak_deps=w, merge=m, loop_control=lc)
    if fill_after:
        for i in range(n):
            _fill(i, n, labels, *sets[i])
    return g


def _fill(i, n, labels, d, w, m, lc):
    for j in range(n + 1):
        lab = labels[i][j]
        if lab == 1:
            d.add(j)
        elif lab == 2:
            w.add(j)
        elif lab == 3:
            m.add(j)
        elif lab == 4:
            lc.add(j)


def _reach(n, edges):
    """reach[i][j]: a non-empty path i -> j over `edges`."""
    r = [[(i, j) in edges for j in range(n)] for i in range(n)]
    for k in range(n):
        for i in range(n):
            for j in range(n):
                if r[i][k] and r[k][j]:
                    r[i][j] = True
    return r


def check(n: int, labels, allow_unresolved: bool, fill_after: bool) -> bool:
    g = build(n, labels, fill_after)
    hard = set()
    weak = set()
    lctl = set()
    unresolved = False
    for i in range(n):
        for j in range(n + 1):
            lab = labels[i][j]
            if lab == 0:
                continue
            if j == n:
                unresolved = True
                continue
            if lab == 1 or lab == 3:
                hard.add((i, j))
            elif lab == 2:
                weak.add((i, j))
            else:
                lctl.add((i, j))
    try:
        res = [k for k, _ in T.sort_ex(g, allow_unresolved=allow_unresolved)]
        exc = None
    except T.CycleError:
        exc = 'cycle'
        res = None
    except T.UnresolvedReferenceError:
        exc = 'unresolved'
        res = None
    cov.done('graph')
    # Soft dependencies only influence the order: the same graph without its
    # soft edges fails or succeeds in the same way.
    if weak:
        nosoft = [[(0 if x == 2 else x) for x in row] for row in labels]
        try:
            list(T.sort_ex(build(n, nosoft, fill_after), allow_unresolved=allow_unresolved))
            exc2 = None
        except T.CycleError:
            exc2 = 'cycle'
        except T.UnresolvedReferenceError:
            exc2 = 'unresolved'
        soft_unresolved = any(labels[i][n] == 2 for i in range(n))
        if not soft_unresolved and exc2 != exc:
            return False
    # P6: references to a missing item
    if unresolved and not allow_unresolved:
        return exc == 'unresolved'
    if exc == 'unresolved':
        return False
    hr = _reach(n, hard)
    hard_cyclic = any(hr[i][i] for i in range(n))
    if not lctl:
        # P3: a cycle is reported exactly when the hard dependencies are cyclic
        if (exc == 'cycle') != hard_cyclic:
            return False
    else:
        # P8: with loop-control edges only "hard cycle => reported" is claimed
        if hard_cyclic and exc != 'cycle':
            return False
    if exc is not None:
        return True
    # P1: every item exactly once
    if sorted(res) != list(range(n)):
        return False
    pos = {k: p for p, k in enumerate(res)}
    # P2: every item after all of its hard dependencies
    for (i, j) in hard:
        if i != j and pos[j] >= pos[i]:
            return False
    # P4: soft dependencies are honoured whenever hard + soft is acyclic
    if not lctl:
        ar = _reach(n, hard | weak)
        if not any(ar[i][i] for i in range(n)):
            for (i, j) in weak:
                if pos[j] >= pos[i]:
                    return False
    # (soft edges never change whether sorting succeeds - checked in check())
    # deterministic for a given input
    res2 = [k for k, _ in T.sort_ex(build(n, labels, fill_after), allow_unresolved=allow_unresolved)]
    if res2 != res:
        return False
    # sort() returns the items in the same order
    if list(T.sort(g, allow_unresolved=allow_unresolved)) != ['item%d' % k for k in res]:
        return False
    return True


def lab(x: int, kinds: int) -> int:
    """Map a symbolic int to a label by an if-chain; `kinds` selects the
    label alphabet: 0 {none, hard, soft}; 1 {none, hard, soft, merge};
    2 {none, hard, soft, merge, loop_control}."""
    if x == 0:
        return 0
    if x == 1:
        return 1
    if x == 2:
        return 2
    if x == 3 and kinds >= 1:
        return 3
    if x == 4 and kinds >= 2:
        return 4
    return 0


def graph2(kinds: int, a: int, b: int, c: int, d: int, ua: int, ub: int, allow: bool, fill_after: bool) -> bool:
    """All 2-key graphs: pairs (0,0),(0,1),(1,0),(1,1) + references to the missing key."""
    vals = [concrete_index(x, 5) for x in (a, b, c, d, ua, ub)]
    if min(vals) < 0:
        return True
    a, b, c, d, ua, ub = vals
    allow, fill_after = concrete_bool(allow), concrete_bool(fill_after)
    labels = [[lab(a, kinds), lab(b, kinds), lab(ua, kinds)], [lab(c, kinds), lab(d, kinds), lab(ub, kinds)]]
    with untraced():
        return check(2, labels, allow, fill_after)


def graph3(kinds: int, l00: int, l01: int, l02: int, l10: int, l11: int, l12: int, l20: int, l21: int, l22: int,
           u0: int, allow: bool, fill_after: bool) -> bool:
    vals = [concrete_index(x, 5) for x in (l00, l01, l02, l10, l11, l12, l20, l21, l22, u0)]
    if min(vals) < 0:
        return True
    l00, l01, l02, l10, l11, l12, l20, l21, l22, u0 = vals
    allow, fill_after = concrete_bool(allow), concrete_bool(fill_after)
    labels = [[lab(l00, kinds), lab(l01, kinds), lab(l02, kinds), lab(u0, kinds)],
              [lab(l10, kinds), lab(l11, kinds), lab(l12, kinds), 0],
              [lab(l20, kinds), lab(l21, kinds), lab(l22, kinds), 0]]
    with untraced():
        return check(3, labels, allow, fill_after)


def graph3lc(l01: int, l02: int, l10: int, l12: int, l20: int, l21: int, fill_after: bool) -> bool:
    """3 keys, no self-loops, every pair any of {none, hard, soft, loop_control}."""
    def m(x):
        return 4 if x == 3 else x
    vals = [concrete_index(x, 4) for x in (l01, l02, l10, l12, l20, l21)]
    if min(vals) < 0:
        return True
    l01, l02, l10, l12, l20, l21 = vals
    fill_after = concrete_bool(fill_after)
    labels = [[0, m(l01), m(l02), 0], [m(l10), 0, m(l12), 0], [m(l20), m(l21), 0, 0]]
    with untraced():
        return check(3, labels, False, fill_after)


def normalize2(a: int, b: int, c: int, d: int) -> bool:
    """P7: normalize() only ever hands the merger an already-merged parent
    (no KeyError), for every graph whose hard dependencies are acyclic."""
    labels = [[lab(a, 1), lab(b, 1), 0], [lab(c, 1), lab(d, 1), 0]]
    g = build(2, labels, False)
    hard = {(i, j) for i in range(2) for j in range(2) if labels[i][j] in (1, 3)}
    hr = _reach(2, hard)
    calls = []

    def merger(item, parent, **kw):
        calls.append((item, parent))
        return item

    try:
        out = list(T.normalize(g, merger))
    except T.CycleError:
        cov.done('normalize-cycle')
        return any(hr[i][i] for i in range(2))
    except KeyError:
        return False
    cov.done('normalize')
    return len(out) == 2
