"""A compositional family of EdgeQL queries (hand-built qlast, see
vlib/query_kit.py) indexed by small integers, so that "which query" is a tuple
of symbolic choices.

  query(form, a, wa, b, wb) :
     form 0  W[wa](ATOM[a])
     form 1  W[wb](W[wa](ATOM[a]))
     form 2  BIN[wb % NBIN](W[wa](ATOM[a]), ATOM[b])
     form 3  DML[wb % NDML] built around ATOM[a] / ATOM[b]
     form 4  NEST[wb % NNEST]: a DML statement in a nesting context around W[wa](ATOM[a])

Everything is a term of vlib.query_kit; kinds ('obj:Person', 'str', ...) keep
the compositions roughly well-typed - the compiler still rejects some, and a
rejected query is outside every property ("accepted queries")."""
import vlib.shims  # noqa: F401
from vlib import query_kit as Q

P = ('type', 'Person')
A = ('type', 'Admin')
CH = ('type', 'Chief')
O = ('type', 'Post')

# (term, kind, root types used)
ATOMS = [
    (P, 'obj:Person', {'Person'}),
    (A, 'obj:Person', {'Admin'}),
    (O, 'obj:Post', {'Post'}),
    (('path', P, 'name'), 'str', {'Person'}),
    (('path', P, 'nick'), 'str', {'Person'}),
    (('path', P, 'tags'), 'str', {'Person'}),
    (('path', P, 'age'), 'int', {'Person'}),
    (('path', P, 'best'), 'obj:Person', {'Person'}),
    (('path', P, 'friends'), 'obj:Person', {'Person'}),
    (('path', ('path', P, 'friends'), 'name'), 'str', {'Person'}),
    (('path', ('path', P, 'best'), 'nick'), 'str', {'Person'}),
    (('path', O, 'author'), 'obj:Person', {'Post'}),
    (('path', ('path', O, 'author'), 'name'), 'str', {'Post'}),
    (('path', O, 'title'), 'str', {'Post'}),
    (('path', O, 'likes'), 'obj:Person', {'Post'}),
    (('str', 'x'), 'str', set()),
    (('int', 1), 'int', set()),
    (('param', 's', 'std::str', False), 'str', set()),
    (('param', 'o', 'std::str', True), 'str', set()),
    (('param', 'n', 'std::int64', False), 'int', set()),
    (('empty', 'std::str'), 'str', set()),
    (('isa', P, 'Admin'), 'obj:Person', {'Person'}),
    (('path', ('isa', ('path', P, 'friends'), 'Admin'), 'level'), 'int', {'Person'}),
    (('path', A, 'level'), 'int', {'Admin'}),
    (('set', ('str', 'a'), ('str', 'b')), 'str', set()),
    (('set', ('int', 1), ('int', 2), ('int', 2)), 'int', set()),
    (('path', ('path', O, 'likes'), 'best'), 'obj:Person', {'Post'}),
    (('path', ('path', ('path', P, 'friends'), 'friends'), 'tags'), 'str', {'Person'}),
    (CH, 'obj:Person', {'Chief'}),
    (('isa', ('path', O, 'likes'), 'Chief'), 'obj:Person', {'Post'}),
    (('param', 's', 'std::str', True), 'str', set()),          # the same parameter name as atom 17, optional
    (('param', 'n', 'std::int64', True), 'int', set()),
]
NATOM = len(ATOMS)

_FILTERS = {
    'obj:Person': ('eq', ('spath', 'name'), ('param', 's', 'std::str', False)),
    'obj:Post': ('exists', ('spath', 'title')),
}
_SHAPES = {
    'obj:Person': [('name', None), ('friends', ('nested', [('name', None), ('tags', None), ('best', ('nested', [('nick', None)]))])),
                   ('n', ('count', ('spath', 'friends'))), ('tags', None)],
    'obj:Post': [('title', None), ('author', ('nested', [('name', None), ('age', None)])),
                 ('likes', ('nested', [('tags', None), ('friends', ('nested', [('name', None)]))])),
                 ('fans', ('path', ('spath', 'likes'), 'name'))],
}
_DEFAULT = {'str': ('str', 'd'), 'int': ('int', 0)}


def _w_identity(t, k):
    return t, k


def _w_distinct(t, k):
    return ('distinct', t), k


def _w_exists(t, k):
    return ('exists', t), 'bool'


def _w_count(t, k):
    return ('count', t), 'int'


def _w_limit1(t, k):
    return ('select', t, None, ('int', 1)), k


def _w_limitn(t, k):
    return ('select', t, None, ('param', 'n', 'std::int64', False)), k


def _w_offset(t, k):
    return ('select', t, None, None, ('int', 1)), k


def _w_filter(t, k):
    f = _FILTERS.get(k)
    if f is None:
        return None
    return ('select', t, f), k


def _w_detached(t, k):
    return ('detached', t), k


def _w_coalesce(t, k):
    d = _DEFAULT.get(k)
    if d is None:
        return None
    return ('coalesce', t, d), k


def _w_shape(t, k):
    sh = _SHAPES.get(k)
    if sh is None:
        return None
    return ('select', ('shape', t, sh), None), k


def _w_subselect(t, k):
    return ('select', t, None), k


def _w_tuple(t, k):
    return ('tuple', t, ('str', 'c')), 'tuple'


def _w_for(t, k):
    return ('for', 'x', t, ('var', 'x')), k


def _w_for_tuple(t, k):
    return ('for', 'x', t, ('tuple', ('var', 'x'), ('int', 1))), 'tuple'


def _w_if(t, k):
    return ('if', ('exists', t), ('str', 'a'), ('str', 'b')), 'str'


def _w_limit0(t, k):
    return ('select', t, None, ('int', 0)), k


def _w_filter_limit(t, k):
    f = _FILTERS.get(k)
    if f is None:
        return None
    return ('select', t, f, ('int', 1)), k


WRAPS = [_w_identity, _w_distinct, _w_exists, _w_count, _w_limit1, _w_limitn, _w_offset, _w_filter, _w_detached,
         _w_coalesce, _w_shape, _w_subselect, _w_tuple, _w_for, _w_for_tuple, _w_if, _w_limit0, _w_filter_limit]
NWRAP = len(WRAPS)


def _b_tuple(x, kx, y, ky):
    return ('tuple', x, y), 'tuple'


def _b_union(x, kx, y, ky):
    if kx != ky or kx in ('tuple',):
        return None
    return ('union', x, y), kx


def _b_eq(x, kx, y, ky):
    if kx != ky or kx.startswith('obj') or kx == 'tuple':
        return None
    return ('eq', x, y), 'bool'


def _b_in(x, kx, y, ky):
    if kx != ky or kx == 'tuple':
        return None
    return ('in', x, y), 'bool'


def _b_coalesce(x, kx, y, ky):
    if kx != ky or kx == 'tuple':
        return None
    return ('coalesce', x, y), kx


def _b_for(x, kx, y, ky):
    return ('for', 'x', x, ('tuple', ('var', 'x'), y)), 'tuple'


def _b_filter_exists(x, kx, y, ky):
    return ('select', x, ('exists', y)), kx


def _b_with(x, kx, y, ky):
    return ('with', 'v', x, ('select', ('tuple', ('var', 'v'), y), None)), 'tuple'


def _b_with_unused(x, kx, y, ky):
    # the binding is not used by the body (a parameter in it is declared but never referenced)
    return ('with', 'v', y, ('select', x, None)), kx


BINS = [_b_tuple, _b_union, _b_eq, _b_in, _b_coalesce, _b_for, _b_filter_exists, _b_with, _b_with_unused]
NBIN = len(BINS)


def _person_values(name_t, best_t, friends_t):
    vals = [('name', name_t), ('age', ('int', 1))]
    if best_t is not None:
        vals.append(('best', best_t))
    if friends_t is not None:
        vals.append(('friends', friends_t))
    return vals


def _one(t):
    return ('select', t, None, ('int', 1))


def _dml(j, x, kx, y, ky):
    """A DML statement built around x (and y)."""
    sx = _one(x) if kx == 'str' else ('str', 'n')
    px = ('detached', x) if kx == 'obj:Person' else None
    if j == 0:
        return ('insert', 'Person', _person_values(sx, _one(px) if px else None, px))
    if j == 1:
        return ('insert', 'Post', [('author', _one(px) if px else _one(('detached', P))), ('title', sx),
                                   ('likes', px if px else ('detached', P))])
    if j == 2:
        return ('update', P, _FILTERS['obj:Person'], [('nick', sx, 'assign')] + ([('friends', px, 'append')] if px else []))
    if j == 3:
        return ('update', P, None, [('best', _one(px) if px else _one(('detached', P)), 'assign'),
                                    ('friends', px if px else ('detached', A), 'subtract')])
    if j == 4:
        return ('delete', O, ('in', ('spath', 'author'), px) if px else ('exists', ('spath', 'title')))
    if j == 5:
        return ('delete', P, _FILTERS['obj:Person'])
    if j == 6:
        return ('for', 'x', ('set', ('str', 'a'), ('str', 'b')), ('insert', 'Person', _person_values(('var', 'x'), None, px)))
    if j == 7:
        return ('select', ('shape', ('insert', 'Person', _person_values(sx, None, px)), _SHAPES['obj:Person']), None)
    return None


NDML = 8


def _nest(j, inner, x, kx):
    """DML statement `inner` placed in a nesting context (x is an unrelated expression)."""
    if j == 0:
        return ('select', inner, None)
    if j == 1:
        return ('tuple', inner, x)
    if j == 2:
        return ('with', 'v', inner, ('select', ('var', 'v'), None))
    if j == 3:
        return ('with', 'v', inner, ('select', x, None))          # the bound DML is not used by the body
    if j == 4:
        return ('for', 'y', x, inner)
    if j == 5:
        return ('count', inner)
    if j == 6:
        return ('exists', inner)
    if j == 7:
        return ('select', ('shape', P, [('name', None), ('made', inner)]), None)
    if j == 8:
        return ('if', ('exists', x), inner, inner)
    if j == 9:
        return ('set', inner, inner)
    if j == 10:
        return ('select', x, ('exists', inner))
    if j == 11:
        return ('insert', 'Post', [('author', inner if True else None), ('title', ('str', 't'))])
    if j == 12:
        return ('coalesce', inner, inner)
    if j == 13:
        return ('select', ('shape', inner, [('name', None)]), None, ('int', 1))
    return None


NNEST = 14
NFORM = 5


def query(form: int, a: int, wa: int, b: int, wb: int):
    """-> (term, kind) or None when the combination is not in the family."""
    ta, ka, _ra = ATOMS[a]
    r = WRAPS[wa](ta, ka)
    if r is None:
        return None
    x, kx = r
    if form == 0:
        return x, kx
    if form == 1:
        r2 = WRAPS[wb](x, kx)
        return r2
    tb, kb, _rb = ATOMS[b]
    if form == 2:
        return BINS[wb % NBIN](x, kx, tb, kb)
    if form == 3:
        d = _dml(wb % NDML, x, kx, tb, kb)
        return (d, 'dml') if d is not None else None
    if form == 4:
        inner = _dml(b % NDML, ta, ka, tb, kb)
        if inner is None or inner[0] not in ('insert', 'update', 'delete'):
            inner = ('insert', 'Person', _person_values(('str', 'n'), None, None))
        n = _nest(wb % NNEST, inner, x, kx)
        return (n, 'nested-dml') if n is not None else None
    return None


def roots(term) -> list:
    """Root types used outside any fence (naive: all ('type', T) occurrences)."""
    out = []

    def walk(t):
        if isinstance(t, tuple):
            if t and t[0] == 'type':
                out.append(t[1])
            for x in t[1:]:
                walk(x)
        elif isinstance(t, list):
            for x in t:
                walk(x)
    walk(term)
    return out
