"""C18 - quoted literals and identifiers cannot break out of their quotes.

Each harness function takes the string (or bytes) to be quoted, calls the
real quoting function from /repo and reads the produced text back with the
reference lexer model (vlib/oracle/eql_model.py for EdgeQL - validated against
the real Rust lexer on every run; vlib/oracle/pg_model.py for PostgreSQL).
It returns True iff the text is exactly one token of the expected kind with
the original value, or the input is outside the form's domain (the set of
values the form can express according to the lexer rules themselves).

Native runs (replay of a counterexample) additionally ask the real lexer
compiled from /repo; a disagreement between model and real lexer raises
OracleDisagreement, which the replay protocol treats as "not reproduced".
"""
import vlib.shims  # noqa: F401
from vlib import cov
from vlib.symchars import is_tracing
from vlib.oracle import eql_model as M
from vlib.oracle import pg_model as PG
from vlib.oracle import tables as _tables  # noqa: F401  (preloads the run-time tables outside tracing)

from edb.edgeql import quote as Q
from edb.edgeql import codegen as QLC
from edb.edgeql import ast as qlast
from edb.pgsql import common as PC
from edb.pgsql import codegen as PGC
from edb.pgsql import ast as pgast
from edb.pgsql.dbops import base as dbops_base

SUBJECTS = [
    'edb.edgeql.quote.escape_string', 'edb.edgeql.quote.quote_literal',
    'edb.edgeql.quote.dollar_quote_literal', 'edb.edgeql.quote.needs_quoting',
    'edb.edgeql.quote._quote_ident', 'edb.edgeql.quote.quote_ident',
    'edb.edgeql.codegen.param_to_str', 'edb.edgeql.codegen.ident_to_str',
    'edb.edgeql.codegen._bytes_escape',
    'edb.edgeql.codegen.EdgeQLSourceGenerator.visit_Constant',
    'edb.edgeql.codegen.EdgeQLSourceGenerator.visit_BytesConstant',
    'edb.pgsql.common.quote_literal', 'edb.pgsql.common._quote_ident',
    'edb.pgsql.common.quote_ident', 'edb.pgsql.common.needs_quoting',
    'edb.pgsql.common.qname', 'edb.pgsql.common.quote_type',
    'edb.pgsql.common.quote_col',
    'edb.pgsql.codegen.SQLSourceGenerator.visit_StringConstant',
    'edb.pgsql.dbops.base.encode_value',
    'file:edb/pgsql/keywords.py',
    'file:edb/edgeql-parser/src/tokenizer.rs', 'file:edb/edgeql-parser/src/validation.rs',
    'file:edb/edgeql-parser/src/helpers/strings.rs', 'file:edb/edgeql-parser/src/helpers/bytes.rs',
    'file:edb/edgeql-parser/src/keywords.rs',
]

LAST_INFO = {}


class OracleDisagreement(Exception):
    pass


def _note(**kw):
    if not is_tracing():
        LAST_INFO.clear()
        LAST_INFO.update({k: repr(v) for k, v in kw.items()})


def _real_check_eql(text, model_tok):
    """Native runs only: the real lexer must agree with the model on `text`."""
    if is_tracing():
        return
    from vlib.oracle import lexer
    real = lexer.shared().single(text)
    if real is not None and real[0] not in ('Str', 'BinStr', 'Ident', 'KeywordR', 'KeywordU', 'Parameter'):
        real = None
    LAST_INFO['real_lexer'] = repr(lexer.shared().lex(text))
    if real != model_tok:
        raise OracleDisagreement('model %r vs real lexer %r on %r' % (model_tok, real, text))


def is_ascii(s: str) -> bool:
    for c in s:
        if ord(c) > 0x7f:
            return False
    return True


def no_surrogates(s: str) -> bool:
    for c in s:
        if 0xD800 <= ord(c) <= 0xDFFF:
            return False
    return True


# ----- adversarial alphabet --------------------------------------------------
ADV = ("'", '"', '\\', '$', '`', '(', ')', ':', '@', '_', 'a', 'b', 'x', 'u', '0', '9',
       '\n', '\r', '\t', '\x08', '\x0c', '\x7f', '\x85', '\xad', '\xb2', 'Ⅱ',
       '‪', '⁦', '\xc9', '\xe9', ' ', 'n', 'i', 'f', 'I', 'K', 'ͅ', '\x00', '\x1f', '　')


ADVSET = ''.join(c for c in ADV if c != '\x00')


def adv(i: int) -> str:
    """i-th character of the adversarial alphabet (if-chain: stays a cheap
    fork under CrossHair, never a symbolic index)."""
    k = 0
    for ch in ADV:
        if i == k:
            return ch
        k += 1
    return ADV[0]


def adv_str(n: int, i0: int, i1: int, i2: int, i3: int, i4: int) -> str:
    parts = [i0, i1, i2, i3, i4]
    out = ''
    for k in range(5):
        if k < n:
            out = out + adv(parts[k])
    return out


# ----- EdgeQL ---------------------------------------------------------------

def eql_quote_literal(s: str) -> bool:
    if not M.str_expressible(s):
        cov.done('outside-domain')
        return True
    t = Q.quote_literal(s)
    tok = M.lex_one(t)
    _note(input=s, produced=t, model_token=tok)
    _real_check_eql(t, tok)
    cov.done('quote_literal')
    return tok is not None and tok[0] == 'Str' and tok[1] == s


def eql_dollar_quote(s: str) -> bool:
    if not M.raw_expressible(s):
        cov.done('outside-domain')
        return True
    t = Q.dollar_quote_literal(s)
    tok = M.lex_one(t)
    _note(input=s, produced=t, model_token=tok)
    _real_check_eql(t, tok)
    cov.done('dollar_quote_literal')
    return tok is not None and tok[0] == 'Str' and tok[1] == s


def _ident_domain(s: str):
    """(expressible at all, expressible in back-ticks)"""
    bt = M.backtick_expressible(s)
    if bt:
        return True, True
    bare = M.lex_one(s)
    ok = bare is not None and bare[0] in ('Ident', 'KeywordU', 'KeywordR') and bare[1] == s
    return ok, False


def eql_quote_ident(s: str, allow_reserved: bool, force: bool) -> bool:
    dom, bt = _ident_domain(s)
    if not dom:
        cov.done('outside-domain')
        return True
    t = Q.quote_ident(s, force=force, allow_reserved=allow_reserved)
    tok = M.lex_one(t)
    _note(input=s, produced=t, model_token=tok)
    _real_check_eql(t, tok)
    cov.done('quote_ident')
    if tok is None or tok[1] != s:
        return False
    if tok[0] == 'Ident' or tok[0] == 'KeywordU':
        return True
    if tok[0] == 'KeywordR':
        # a reserved word read back as a keyword token is acceptable only
        # where the caller allows it, or where no quoted form exists
        return allow_reserved or not bt
    return False


def eql_param(s: str) -> bool:
    quoted = '$`' + s.replace('`', '``') + '`'
    d1 = M.lex_one(quoted)
    d2 = M.lex_one('$' + s)
    if not ((d1 is not None and d1[0] == 'Parameter' and d1[1] == s)
            or (d2 is not None and d2[0] == 'Parameter' and d2[1] == s)):
        cov.done('outside-domain')
        return True
    t = QLC.param_to_str(s)
    tok = M.lex_one(t)
    _note(input=s, produced=t, model_token=tok)
    _real_check_eql(t, tok)
    cov.done('param_to_str')
    return tok is not None and tok[0] == 'Parameter' and tok[1] == s


def _split_qualified(text: str):
    """Split at '::' outside back-ticks."""
    pieces = []
    cur = ''
    inq = False
    i = 0
    n = len(text)
    while i < n:
        c = text[i]
        if c == '`':
            inq = not inq
            cur = cur + c
            i += 1
        elif not inq and c == ':' and i + 1 < n and text[i + 1] == ':':
            pieces.append(cur)
            cur = ''
            i += 2
        else:
            cur = cur + c
            i += 1
    pieces.append(cur)
    return pieces


def eql_ident_to_str(a: str, b: str) -> bool:
    da, _ = _ident_domain(a)
    db, _ = _ident_domain(b)
    # `a::b` is passed to ident_to_str() as one string and split at '::', so
    # names that would move that boundary are not expressible through it
    if (not (da and db) or '::' in a or '::' in b or a == '' or b == ''
            or a.endswith(':') or b.startswith(':')):
        cov.done('outside-domain')
        return True
    t = QLC.ident_to_str(a + '::' + b)
    pieces = _split_qualified(t)
    _note(input=(a, b), produced=t, pieces=pieces)
    cov.done('ident_to_str')
    if len(pieces) != 2:
        return False
    ta = M.lex_one(pieces[0])
    tb = M.lex_one(pieces[1])
    _real_check_eql(pieces[0], ta)
    _real_check_eql(pieces[1], tb)
    return (ta is not None and tb is not None and ta[1] == a and tb[1] == b
            and ta[0] in ('Ident', 'KeywordU', 'KeywordR') and tb[0] in ('Ident', 'KeywordU', 'KeywordR'))


def eql_codegen_str(s: str, pretty: bool) -> bool:
    if not M.str_expressible(s):
        cov.done('outside-domain')
        return True
    t = QLC.generate_source(qlast.Constant.string(s), pretty=pretty)
    tok = M.lex_one(t)
    _note(input=s, produced=t, model_token=tok)
    _real_check_eql(t, tok)
    cov.done('visit_Constant')
    return tok is not None and tok[0] == 'Str' and tok[1] == s


def eql_codegen_bytes(b: bytes) -> bool:
    t = QLC.generate_source(qlast.BytesConstant(value=b))
    tok = M.lex_one(t)
    _note(input=b, produced=t, model_token=tok)
    _real_check_eql(t, tok)
    cov.done('visit_BytesConstant')
    return tok is not None and tok[0] == 'BinStr' and tok[1] == b


# adversarial-alphabet variants (index-encoded strings)

def adv_quote_literal(n: int, i0: int, i1: int, i2: int, i3: int, i4: int) -> bool:
    return eql_quote_literal(adv_str(n, i0, i1, i2, i3, i4))


def adv_dollar_quote(n: int, i0: int, i1: int, i2: int, i3: int, i4: int) -> bool:
    return eql_dollar_quote(adv_str(n, i0, i1, i2, i3, i4))


def adv_quote_ident(n: int, i0: int, i1: int, i2: int, i3: int, i4: int, allow_reserved: bool, force: bool) -> bool:
    return eql_quote_ident(adv_str(n, i0, i1, i2, i3, i4), allow_reserved, force)


def adv_param(n: int, i0: int, i1: int, i2: int, i3: int, i4: int) -> bool:
    return eql_param(adv_str(n, i0, i1, i2, i3, i4))


def adv_codegen_str(n: int, i0: int, i1: int, i2: int, i3: int, i4: int, pretty: bool) -> bool:
    return eql_codegen_str(adv_str(n, i0, i1, i2, i3, i4), pretty)


# ----- PostgreSQL -----------------------------------------------------------

def pg_quote_literal(s: str) -> bool:
    if not PG.valid_text(s):
        cov.done('outside-domain')
        return True
    t = PC.quote_literal(s)
    v = PG.lex_string_constant(t)
    _note(input=s, produced=t, model_value=v)
    cov.done('pg.quote_literal')
    return v is not None and v == s


def pg_string_constant_node(s: str) -> bool:
    if not PG.valid_text(s):
        cov.done('outside-domain')
        return True
    t = PGC.generate_source(pgast.StringConstant(val=s))
    v = PG.lex_string_constant(t)
    _note(input=s, produced=t)
    cov.done('pg.StringConstant')
    return v is not None and v == s


def pg_quote_ident(s: str, force: bool, column: bool) -> bool:
    if not PG.valid_text(s) or len(s) == 0:
        cov.done('outside-domain')
        return True
    t = PC.quote_ident(s, force=force, column=column)
    v = PG.lex_identifier(t)
    _note(input=s, produced=t, model_value=v)
    cov.done('pg.quote_ident')
    return v is not None and v == s


def pg_qname(a: str, b: str) -> bool:
    if not (PG.valid_text(a) and PG.valid_text(b)) or len(a) == 0 or len(b) == 0:
        cov.done('outside-domain')
        return True
    t = PC.qname(a, b)
    v = PG.lex_qualified(t, 2)
    _note(input=(a, b), produced=t, model_value=v)
    cov.done('pg.qname')
    return v is not None and v[0] == a and v[1] == b


def pg_quote_type(a: str, b: str, arr: bool) -> bool:
    if not (PG.valid_text(a) and PG.valid_text(b)) or len(a) == 0 or len(b) == 0:
        cov.done('outside-domain')
        return True
    # the last component is a small DSL: "(" starts type parameters, trailing
    # "[]" / "%ROWTYPE" are suffixes - names using that syntax are outside
    if '(' in b or b.endswith('[]') or b.endswith('%ROWTYPE'):
        cov.done('outside-domain')
        return True
    t = PC.quote_type((a, b + '[]') if arr else (a, b))
    _note(input=(a, b, arr), produced=t)
    cov.done('pg.quote_type')
    if arr:
        if not t.endswith('[]'):
            return False
        t = t[:-2]
    v = PG.lex_qualified(t, 2)
    return v is not None and v[0] == a and v[1] == b


def adv_pg_quote_literal(n: int, i0: int, i1: int, i2: int, i3: int, i4: int) -> bool:
    return pg_quote_literal(adv_str(n, i0, i1, i2, i3, i4))


def adv_pg_quote_ident(n: int, i0: int, i1: int, i2: int, i3: int, i4: int, force: bool, column: bool) -> bool:
    return pg_quote_ident(adv_str(n, i0, i1, i2, i3, i4), force, column)
