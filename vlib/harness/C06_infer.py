"""C06 / C12 - what the compiler infers about a query's result holds for what
the query evaluates to.

Subject: the real EdgeQL compiler's inference (edgeql/compiler/inference/
cardinality.py, multiplicity.py, and the result type stmt.stype) on hand-built
queries of vlib/harness/Q_family.py; oracle: the reference evaluator
vlib/query_eval.py on a family of explicit database instances.

C06: the number of elements the query evaluates to lies in the inferred
cardinality (ONE -> exactly 1, AT_MOST_ONE -> <= 1, AT_LEAST_ONE -> >= 1), and
an inferred multiplicity UNIQUE means no duplicates.
C12: every value belongs to the inferred result type (scalar kind, tuple
structure, object type up to sub-typing)."""
import vlib.shims  # noqa: F401
from vlib import cov
from vlib import query_kit as Q
from vlib import query_eval as E
from vlib.concrete import untraced, concrete_index
from vlib.harness import Q_family as F

from edb import errors
from edb.edgeql import qltypes

SUBJECTS = ['file:edb/edgeql/compiler/inference/cardinality.py', 'file:edb/edgeql/compiler/inference/multiplicity.py',
            'file:edb/edgeql/compiler/inference/types.py' if False else 'file:edb/edgeql/compiler/typegen.py',
            'file:edb/edgeql/compiler/stmt.py', 'file:edb/edgeql/compiler/setgen.py', 'file:edb/edgeql/compiler/expr.py',
            'file:edb/edgeql/compiler/func.py', 'file:edb/edgeql/compiler/polyres.py', 'file:edb/edgeql/compiler/schemactx.py']

LAST = {}
_IR = {}


def _disjoint_roots(form, a, b, wb=0):
    if form != 2:
        return True
    if F.BINS[wb % F.NBIN] is F._b_union:
        return True          # both operands of UNION are SET OF arguments: separate scopes, no path factoring
    ra, rb = F.ATOMS[a][2], F.ATOMS[b][2]
    fam = lambda r: {'Person' if x in ('Admin', 'Chief') else x for x in r}      # noqa: E731
    return not (fam(ra) & fam(rb))


def _compile(key, t):
    if key not in _IR:
        try:
            ir = Q.compile_ir(t)
            _IR[key] = (ir.cardinality, ir.multiplicity, ir.stype, ir.schema)
        except errors.InternalServerError:
            _IR[key] = 'ise'
        except errors.EdgeDBError:
            _IR[key] = None
    return _IR[key]


def _type_ok(v, stype, schema):
    name = str(stype.get_name(schema))
    if stype.is_scalar() and not name.startswith('std::'):
        # a scalar view (e.g. the iterator of FOR): the scalar type it derives from
        seen = 0
        cur = stype
        while not str(cur.get_name(schema)).startswith('std::') and seen < 8:
            bases = list(cur.get_bases(schema).objects(schema))
            if not bases:
                break
            cur = bases[0]
            seen += 1
        name = str(cur.get_name(schema))
    if isinstance(v, bool):
        return name == 'std::bool'
    if isinstance(v, int):
        return name == 'std::int64'
    if isinstance(v, str):
        return name == 'std::str'
    if isinstance(v, E.Obj):
        if not stype.is_object_type():
            return False
        schema2, mt = stype.material_type(schema)
        want = schema2.get('default::' + v.type)
        return want.issubclass(schema2, mt)
    if isinstance(v, tuple):
        if not stype.is_tuple(schema):
            return False
        subs = list(stype.get_subtypes(schema))
        return len(subs) == len(v) and all(_type_ok(x, s, schema) for x, s in zip(v, subs))
    return False


def inferred_holds(form: int, a: int, wa: int, b: int, wb: int, dbi: int, pi: int, what: int) -> bool:
    """what: 0 = cardinality + multiplicity (C06), 1 = result type (C12)."""
    form = concrete_index(form, 3)
    a, b = concrete_index(a, F.NATOM), concrete_index(b, F.NATOM)
    wa, wb = concrete_index(wa, F.NWRAP), concrete_index(wb, F.NWRAP)
    dbi, pi, what = concrete_index(dbi, E.NDB), concrete_index(pi, E.NPARAM), concrete_index(what, 2)
    if min(form, a, b, wa, wb, dbi, pi, what) < 0:
        return True
    with untraced(heavy=True):
        return _inferred_holds(form, a, wa, b, wb, dbi, pi, what)


def _inferred_holds(form, a, wa, b, wb, dbi, pi, what) -> bool:
    cov.hit('step')
    if not _disjoint_roots(form, a, b, wb):
        return True          # two paths from the same root in one scope: path factoring, not modelled by the evaluator
    r = F.query(form, a, wa, b, wb)
    if r is None:
        return True
    t, _k = r
    c = _compile((form, a, wa, b, wb), t)
    if c is None or c == 'ise':
        cov.hit('rejected' if c is None else 'internal compiler error')
        return True
    card, mult, stype, schema = c
    try:
        vals = E.evaluate(t, E.database(dbi), E.PARAMSETS[pi])
    except E.Unsupported:
        cov.hit('evaluator: unsupported')
        return True
    n = len(vals)
    probs = []
    if what == 0:
        CN = qltypes.Cardinality
        if card is CN.ONE and n != 1:
            probs.append(f'inferred ONE, evaluates to {n} elements')
        elif card is CN.AT_MOST_ONE and n > 1:
            probs.append(f'inferred AT_MOST_ONE, evaluates to {n} elements')
        elif card is CN.AT_LEAST_ONE and n < 1:
            probs.append('inferred AT_LEAST_ONE, evaluates to the empty set')
        if mult is not None and getattr(mult, 'name', str(mult)).upper().startswith('UNIQUE') and len(E._dedup(vals)) != n:
            probs.append(f'inferred multiplicity UNIQUE, evaluates to {n} elements with duplicates')
    else:
        bad = [v for v in vals if not _type_ok(v, stype, schema)]
        if bad:
            probs.append(f'inferred type {stype.get_displayname(schema)}, evaluates to {bad[0]!r}')
    LAST.clear()
    if probs:
        LAST.update(query=Q.text(t), database=E.database(dbi).describe(), params=E.PARAMSETS[pi], result=repr(vals)[:300],
                    inferred=f'{card.name} / {getattr(mult, "name", mult)} / {stype.get_displayname(schema)}', problems=probs)
        return False
    cov.done('query x database')
    return True


def inferred_all(form: int, a: int, wa: int, b: int, wb: int, what: int) -> bool:
    """One query (symbolic choice), evaluated on EVERY instance of the database family x every parameter set."""
    form = concrete_index(form, 3)
    a, b = concrete_index(a, F.NATOM), concrete_index(b, F.NATOM)
    wa, wb = concrete_index(wa, F.NWRAP), concrete_index(wb, F.NWRAP)
    what = concrete_index(what, 2)
    if min(form, a, b, wa, wb, what) < 0:
        return True
    with untraced(heavy=True):
        for dbi in range(E.NDB):
            for pi in range(E.NPARAM):
                if not _inferred_holds(form, a, wa, b, wb, dbi, pi, what):
                    return False
        return True


def twin_nonempty(a: int, wa: int) -> bool:
    """Reachability twin: an accepted query that evaluates to a non-empty result on some instance."""
    a, wa = concrete_index(a, F.NATOM), concrete_index(wa, F.NWRAP)
    if min(a, wa) < 0:
        return False
    with untraced(heavy=True):
        r = F.query(0, a, wa, 0, 0)
        if r is None or _compile((0, a, wa, 0, 0), r[0]) in (None, 'ise'):
            return False
        try:
            return any(E.evaluate(r[0], E.database(i), E.PARAMSETS[0]) for i in range(E.NDB))
        except E.Unsupported:
            return False


def inferred_raw(form, a, wa, b, wb, dbi, pi, what):
    ok = inferred_holds(form, a, wa, b, wb, dbi, pi, what)
    return {'ok': ok, **({} if ok else LAST)}
