"""Character-class predicates that stay symbolic under CrossHair.

`Mask(name, ranges)` is a set of code points given as half-open ranges (here:
Rust's `char::is_alphabetic` / `is_alphanumeric`, dumped by the compiled real
lexer on every run).  `mask.has(ch)`:
  * on a concrete one-character str: table lookup;
  * on a CrossHair symbolic str: one solver fork on an SMT predicate over the
    code point (the same mechanism CrossHair uses for str.isalpha & co.),
    so no enumeration of ranges happens on the Python side.
"""
import bisect
from typing import List, Tuple

try:
    from crosshair.tracers import NoTracing, is_tracing
    from crosshair.statespace import context_statespace
    from crosshair.libimpl.builtinslib import AnySymbolicStr, SymbolicInt
    from crosshair.unicode_categories import CharMask
    import z3
    _HAVE_CH = True
except ImportError:  # native use without the overlay
    _HAVE_CH = False

    def is_tracing():
        return False


class _MaskFns:
    """Per-path cache of SMT functions with their defining axiom (added to the
    path's solver once)."""

    def __init__(self, solver):
        self.solver = solver
        self.fns = {}

    def get(self, mask: 'Mask'):
        fn = self.fns.get(mask.name)
        if fn is None:
            fn = z3.Function('is_' + mask.name, z3.IntSort(), z3.BoolSort())
            self.solver.add(mask.charmask().interpret_smt_function(fn))
            self.fns[mask.name] = fn
        return fn


class Mask:
    def __init__(self, name: str, ranges: List[Tuple[int, int]]):
        self.name = name
        self.ranges = sorted(ranges)
        self._starts = [r[0] for r in self.ranges]
        self._cm = None

    def covers(self, cp: int) -> bool:
        i = bisect.bisect_right(self._starts, cp) - 1
        return i >= 0 and self.ranges[i][0] <= cp < self.ranges[i][1]

    def charmask(self):
        if self._cm is None:
            self._cm = CharMask([(a if b == a + 1 else (a, b)) for a, b in self.ranges])
        return self._cm

    def has(self, ch) -> bool:
        if not _HAVE_CH or not is_tracing():
            return self.covers(ord(ch))
        codepoint = ord(ch)
        with NoTracing():
            if not isinstance(ch, AnySymbolicStr) and not isinstance(codepoint, SymbolicInt):
                return self.covers(int(codepoint))
            space = context_statespace()
            smt_cp = SymbolicInt._coerce_to_smt_sort(codepoint)
            fn = space.extra(_MaskFns).get(self)
            return space.smt_fork(fn(smt_cp))
