"""Hand-built schema commands.  The EdgeQL parser and the standard library
cannot be loaded in this sandbox, but the *real* delta machinery
(edb.schema.delta / ddl / objtypes / properties / links / annos / scalars /
inheriting / referencing / ordering) runs on command trees built by hand over
a minimal stand-in for the std module (std::BaseObject, std::Object, std::str,
std::int64, std::property, std::source, std::target, std::link).

Every function takes a schema and returns the new schema produced by applying
the command through DeltaRoot.apply() - or raises whatever the real code
raises."""
import uuid

import vlib.shims  # noqa: F401

from edb.edgeql import qltypes
from edb.schema import annos as s_anno
from edb.schema import ddl as s_ddl  # noqa: F401  (registers the commands)
from edb.schema import delta as sd
from edb.schema import links as s_links
from edb.schema import modules as s_mod
from edb.schema import name as sn
from edb.schema import objects as so
from edb.schema import objtypes as s_ot
from edb.schema import properties as s_props
from edb.schema import pseudo as s_pseudo
from edb.schema import scalars as s_scalars
from edb.schema import schema as s_schema
from edb.schema import types as s_types
from edb.schema import version as s_ver


# ---- deterministic object ids ---------------------------------------------------
# Objects get uuid1mc() ids (time + random node).  Several orders in the delta machinery follow
# the ids (iteration over the id-keyed maps), so a history could behave differently from one
# process to the next and a solver counterexample would not replay.  The harness processes
# draw ids from a seeded counter instead; the seed is a (symbolic) parameter where it matters.

import hashlib as _hashlib
import uuid as _uuid
from edb.common import uuidgen as _uuidgen

_ID = {'seed': 0, 'n': 0}


def _uuid1mc():
    _ID['n'] += 1
    h = _hashlib.sha1(b'%d:%d' % (_ID['seed'], _ID['n'])).digest()
    return _uuidgen.UUID(_uuid.UUID(bytes=h[:16], version=1).bytes)


_uuidgen.uuid1mc = _uuid1mc


def reset_ids(seed: int = 0, start: int = 10 ** 6):
    _ID['seed'] = seed
    _ID['n'] = start


def id_state():
    return dict(_ID)


def restore_ids(st):
    _ID.update(st)


def Q(s: str) -> sn.QualName:
    return sn.QualName.from_string(s)


def run(schema, cmd, **ctxargs):
    root = sd.DeltaRoot()
    root.add(cmd)
    return root.apply(schema, sd.CommandContext(**ctxargs))


def _shell(name, cls):
    return so.ObjectShell(name=Q(name), schemaclass=cls)


def _bases(names, cls):
    return so.ObjectCollectionShell([_shell(b, cls) for b in names], collection_type=so.ObjectList)


def create_module(schema, name, **kw):
    cmd = s_mod.CreateModule(classname=sn.UnqualName(name))
    cmd.set_attribute_value('name', cmd.classname)
    return run(schema, cmd, **kw)


# ---- user commands: hand-built qlast DDL nodes ------------------------------------
# (the nodes the parser would produce; applied with ddl.delta_and_schema_from_ddl,
# i.e. through _cmd_tree_from_ast like real DDL - only the text parser is skipped)

from edb.edgeql import ast as qlast  # noqa: E402

OC = qltypes.SchemaObjectClass


def ddl(schema, node):
    new_schema, _delta = s_ddl.delta_and_schema_from_ddl(node, schema=schema, modaliases={None: 'default'})
    return new_schema


def _ref(name, itemclass=None):
    mod, _, n = name.rpartition('::')
    return qlast.ObjectRef(name=n, module=mod or None, itemclass=itemclass)


def _tn(name):
    mod, _, n = name.rpartition('::')
    return qlast.TypeName(maintype=qlast.ObjectRef(name=n, module=mod or None))


def _alter_type(typ, *commands):
    return qlast.AlterObjectType(name=_ref(typ, OC.TYPE), commands=list(commands))


def create_type(schema, name, bases=(), abstract=False, **kw):
    if kw:      # std stand-in objects are created with hand-built commands (stdmode)
        return _create_type_cmd(schema, name, bases=bases or ('std::Object',), abstract=abstract, **kw)
    return ddl(schema, qlast.CreateObjectType(name=_ref(name, OC.TYPE), bases=[_tn(b) for b in bases],
                                              abstract=abstract, commands=[]))


def _create_type_cmd(schema, name, bases=('std::Object',), abstract=False, **kw):
    cmd = s_ot.CreateObjectType(classname=Q(name))
    cmd.set_attribute_value('name', cmd.classname)
    cmd.set_attribute_value('bases', _bases(bases, s_ot.ObjectType))
    if abstract:
        cmd.set_attribute_value('abstract', True)
    return run(schema, cmd, **kw)


def drop_type(schema, name):
    return ddl(schema, qlast.DropObjectType(name=_ref(name, OC.TYPE)))


def rename_type(schema, name, new_name):
    return ddl(schema, _alter_type(name, qlast.Rename(name=_ref(name, OC.TYPE), new_name=_ref(new_name, OC.TYPE))))


def rebase_type(schema, name, new_bases):
    """ALTER TYPE name { DROP EXTENDING <old not in new>; EXTENDING <new not in old> LAST } - or, when the
    bases that stay have to change their order, EXTENDING <all new bases, in order> LAST (an explicit position
    re-positions a base that is already there)."""
    obj = schema.get(Q(name))
    old = [str(b.get_name(schema)) for b in obj.get_bases(schema).objects(schema)]
    cmds = []
    removed = [b for b in old if b not in new_bases and b != 'std::Object']
    added = [b for b in new_bases if b not in old and b != 'std::Object']
    if removed:
        cmds.append(qlast.AlterDropInherit(bases=[_tn(b) for b in removed]))
    kept = [b for b in old if b in new_bases and b != 'std::Object']
    want = [b for b in new_bases if b != 'std::Object']
    if kept != [b for b in want if b in kept]:
        cmds.append(qlast.AlterAddInherit(bases=[_tn(b) for b in want], position=qlast.Position(position='LAST')))
    elif added:
        cmds.append(qlast.AlterAddInherit(bases=[_tn(b) for b in added], position=qlast.Position(position='LAST')))
    if not cmds:
        return schema
    return ddl(schema, _alter_type(name, *cmds))


def set_type_field(schema, name, field, value):
    assert field == 'abstract'
    return ddl(schema, _alter_type(name, qlast.SetField(name='abstract', value=qlast.Constant.boolean(bool(value)),
                                                        special_syntax=True)))


def set_type_ref_field(schema, name, field, target_names):
    """AlterObjectType setting an object-set field (union_of / intersection_of:
    internal fields the compiler sets when it derives union / intersection
    types) to the given types, or resetting it when `target_names` is None.
    Built as a command object: there is no DDL syntax for these fields."""
    obj = schema.get(Q(name))
    alter = s_ot.AlterObjectType(classname=Q(name))
    value = None
    if target_names is not None:
        value = so.ObjectSet.create(schema, [schema.get(Q(t)) for t in target_names])
    alter.set_attribute_value(field, value, orig_value=obj.get_explicit_field_value(schema, field, None))
    return run(schema, alter)


# ---- pointers -------------------------------------------------------------------

def create_property(schema, typ, pname, target='std::str', required=False, multi=False):
    node = qlast.CreateConcreteProperty(
        name=qlast.ObjectRef(name=pname, itemclass=OC.PROPERTY), is_required=required, target=_tn(target),
        cardinality=qltypes.SchemaCardinality.Many if multi else qltypes.SchemaCardinality.One, commands=[])
    return ddl(schema, _alter_type(typ, node))


def create_link(schema, typ, lname, target, required=False, multi=False):
    node = qlast.CreateConcreteLink(
        name=qlast.ObjectRef(name=lname, itemclass=OC.LINK), is_required=required, target=_tn(target),
        cardinality=qltypes.SchemaCardinality.Many if multi else qltypes.SchemaCardinality.One, commands=[])
    return ddl(schema, _alter_type(typ, node))


def drop_pointer(schema, typ, pname, link=False):
    cls = qlast.DropConcreteLink if link else qlast.DropConcreteProperty
    return ddl(schema, _alter_type(typ, cls(name=qlast.ObjectRef(name=pname, itemclass=OC.LINK if link else OC.PROPERTY))))


def _alter_ptr(typ, pname, link, *commands):
    cls = qlast.AlterConcreteLink if link else qlast.AlterConcreteProperty
    return _alter_type(typ, cls(name=qlast.ObjectRef(name=pname, itemclass=OC.LINK if link else OC.PROPERTY),
                                commands=list(commands)))


def rename_pointer(schema, typ, pname, new_pname, link=False):
    ic = OC.LINK if link else OC.PROPERTY
    return ddl(schema, _alter_ptr(typ, pname, link, qlast.Rename(name=qlast.ObjectRef(name=pname, itemclass=ic),
                                                                 new_name=qlast.ObjectRef(name=new_pname, itemclass=ic))))


def set_pointer_required(schema, typ, pname, required, link=False):
    return ddl(schema, _alter_ptr(typ, pname, link, qlast.SetPointerOptionality(
        name='required', value=qlast.Constant.boolean(bool(required)), special_syntax=True)))


# ---- annotations --------------------------------------------------------------

def create_annotation(schema, name, inheritable=True):
    return ddl(schema, qlast.CreateAnnotation(name=_ref(name, OC.ANNOTATION), abstract=True, inheritable=inheritable,
                                              bases=[], commands=[]))


def drop_annotation(schema, name):
    return ddl(schema, qlast.DropAnnotation(name=_ref(name, OC.ANNOTATION)))


def rename_annotation(schema, name, new_name):
    return ddl(schema, qlast.AlterAnnotation(name=_ref(name, OC.ANNOTATION), commands=[
        qlast.Rename(name=_ref(name, OC.ANNOTATION), new_name=_ref(new_name, OC.ANNOTATION))]))


def set_annotation(schema, typ, anno, value):
    return ddl(schema, _alter_type(typ, qlast.CreateAnnotationValue(name=_ref(anno), value=qlast.Constant.string(value))))


def drop_annotation_value(schema, typ, anno):
    return ddl(schema, _alter_type(typ, qlast.DropAnnotationValue(name=_ref(anno))))


# ---- the std stand-in ------------------------------------------------------------

def _create_scalar(schema, name):
    cmd = s_scalars.CreateScalarType(classname=Q(name))
    cmd.set_attribute_value('name', cmd.classname)
    cmd.set_attribute_value('bases', so.ObjectCollectionShell([], collection_type=so.ObjectList))
    return run(schema, cmd, stdmode=True)


def _create_abstract_constraint(schema, name):
    from edb.schema import constraints as s_constr
    cmd = s_constr.CreateConstraint(classname=Q(name))
    cmd.set_attribute_value('name', cmd.classname)
    cmd.set_attribute_value('abstract', True)
    cmd.set_attribute_value('bases', so.ObjectCollectionShell([], collection_type=so.ObjectList))
    return run(schema, cmd, stdmode=True)


def _create_abstract_ptr(schema, name, cls, ccls, bases):
    cmd = ccls(classname=Q(name))
    cmd.set_attribute_value('name', cmd.classname)
    cmd.set_attribute_value('abstract', True)
    cmd.set_attribute_value('bases', _bases(bases, cls))
    return run(schema, cmd, stdmode=True)


_BASE = None
_STD = None


def std_schema():
    """The std stand-in alone (no user module): the starting point for SDL."""
    base_schema()
    return _STD


def base_schema():
    global _BASE, _STD
    if _BASE is None:
        _st = id_state()
        reset_ids(0, start=5 * 10 ** 8)         # an id range of its own
        s = s_schema.EMPTY_SCHEMA
        s = create_module(s, 'std', stdmode=True)
        s = _create_type_cmd(s, 'std::BaseObject', bases=(), stdmode=True)
        s = _create_type_cmd(s, 'std::Object', bases=('std::BaseObject',), stdmode=True)
        s = _create_scalar(s, 'std::str')
        s = _create_scalar(s, 'std::int64')
        s = _create_scalar(s, 'std::bool')
        s = _create_scalar(s, 'std::uuid')
        # looked up by the backend delta for every new property (pgsql/delta.py is_sequence_ptr)
        s = _create_scalar(s, 'std::sequence')
        # looked up by the EdgeQL compiler when it infers the cardinality of a path (exclusive pointers)
        s = _create_abstract_constraint(s, 'std::exclusive')
        s = _create_abstract_ptr(s, 'std::property', s_props.Property, s_props.CreateProperty, [])
        s = _create_abstract_ptr(s, 'std::source', s_props.Property, s_props.CreateProperty, ['std::property'])
        s = _create_abstract_ptr(s, 'std::target', s_props.Property, s_props.CreateProperty, ['std::property'])
        s = _create_abstract_ptr(s, 'std::link', s_links.Link, s_links.CreateLink, [])
        # pseudo types looked up by the SDL layer (edgeql/declarative.py)
        for pt in ('anytype', 'anytuple', 'anyobject'):
            s, _ = s_pseudo.PseudoType.create_in_schema(s, name=sn.UnqualName(pt))
        # DDL applied from an AST (ddl.delta_and_schema_from_ddl) bumps the schema version object
        s, _ = s_ver.SchemaVersion.create_in_schema(
            s, name=sn.UnqualName('__schema_version__'), version=uuid.UUID(int=7), internal=True)
        _STD = s
        _BASE = create_module(s, 'default')
        restore_ids(_st)
    return _BASE


# ---- integrity oracle (property C04) ------------------------------------------------

def integrity_problems(schema):
    """Violations of "the schema is referentially intact and its look-ups
    agree with the objects' own data", computed from the FlatSchema's own
    tables: every reference field resolves, name/id look-ups agree with the
    data, the reverse index (referrers) equals the one recomputed from the
    forward references, a dropped object is reachable from nowhere."""
    problems = []
    ids = set(schema._id_to_type)
    if set(schema._id_to_data) != ids:
        problems.append('id tables disagree')
    expected = {}
    for oid, tname in schema._id_to_type.items():
        cls = so.ObjectMeta.get_schema_class(tname)
        data = schema._id_to_data[oid]
        obj = schema.get_by_id(oid)
        name = data[cls.get_schema_field('name').index]
        if issubclass(cls, so.QualifiedObject):
            if schema._name_to_id.get(name) != oid:
                problems.append(f'{tname} {name}: not reachable by its own name')
            elif schema.get(name, default=None) != obj:
                problems.append(f'{tname} {name}: schema.get(name) returns another object')
        else:
            if schema._globalname_to_id.get((cls, name)) != oid:
                problems.append(f'{tname} {name}: not reachable by its global name')
        for f in cls.get_object_reference_fields():
            raw = data[f.index]
            if raw is None:
                continue
            for rid in f.type.schema_refs_from_data(raw):
                if rid not in ids:
                    problems.append(f'{tname} {name}: field {f.name!r} holds dangling id')
                expected.setdefault(rid, {}).setdefault((cls, f.name), set()).add(oid)
            if issubclass(f.type, so.ObjectIndexBase):
                coll = obj.get_explicit_field_value(schema, f.name, None)
                if coll is not None and all(i in ids for i in coll._ids):
                    cached = tuple(coll.keys(schema))
                    actual = tuple(type(coll).get_key_for(schema, o) for o in coll.objects(schema))
                    if cached != actual:
                        problems.append(f'{tname} {name}: {f.name} index keys disagree with member names')
    for name, oid in schema._name_to_id.items():
        if oid not in ids:
            problems.append(f'name {name} resolves to a dropped object')
    for (_cls, name), oid in schema._globalname_to_id.items():
        if oid not in ids:
            problems.append(f'global name {name} resolves to a dropped object')
    actual = {}
    for target, refs in schema._refs_to.items():
        for key, referrers in refs.items():
            if referrers:
                actual.setdefault(target, {})[key] = set(referrers)
    for target in set(expected) | set(actual):
        if expected.get(target, {}) != actual.get(target, {}):
            problems.append(f'reverse index of {describe(schema, target)} disagrees with the forward references')
    for oid in ids:
        obj = schema.get_by_id(oid)
        try:
            got = {r.id for r in schema.get_referrers(obj)}
        except LookupError:
            problems.append(f'get_referrers({describe(schema, oid)}) raised LookupError')
            continue
        want = set()
        for referrers in expected.get(oid, {}).values():
            want |= referrers
        if got != want:
            problems.append(f'get_referrers({describe(schema, oid)}) disagrees with the forward references')
    return problems


def describe(schema, oid):
    tname = schema._id_to_type.get(oid)
    if tname is None:
        return '<dropped object>'
    cls = so.ObjectMeta.get_schema_class(tname)
    return str(schema._id_to_data[oid][cls.get_schema_field('name').index])


def observe(schema):
    """API-level observation of everything in a schema value (used to check
    that earlier versions stay frozen and to compare schemas structurally:
    ids are replaced by names)."""
    view = {}
    for oid, tname in schema._id_to_type.items():
        cls = so.ObjectMeta.get_schema_class(tname)
        obj = schema.get_by_id(oid)
        fields = {}
        for fname in cls.get_schema_fields():
            if fname in ('id', 'builtin', 'internal', 'backend_id'):
                continue
            v = obj.get_explicit_field_value(schema, fname, None)
            fields[fname] = _obs_value(schema, v)
        view[describe(schema, oid) + ' : ' + tname] = fields
    return view


def _obs_value(schema, v):
    if isinstance(v, so.ObjectIndexBase):
        return ('index', tuple(str(k) for k in v.keys(schema)), tuple(describe(schema, i) for i in v._ids))
    if isinstance(v, so.ObjectCollection):
        names = [describe(schema, i) for i in v._ids]
        if isinstance(v, so.ObjectSet):
            names = sorted(names)
        return ('coll', type(v).__name__, tuple(names))
    if isinstance(v, so.Object):
        return ('obj', describe(schema, v.id))
    return repr(v)


def _norm(v):
    """Order-insensitive, None == empty: for comparing two schemas that were
    built along different routes (member order of refdicts and unset vs empty
    collections are not part of a schema's meaning)."""
    if isinstance(v, tuple) and v and v[0] == 'index':
        pairs = sorted(zip(v[1], v[2]))
        return ('index', tuple(pairs)) if pairs else None
    if isinstance(v, tuple) and v and v[0] == 'coll':
        return v if v[2] else None
    if v == 'None':
        return None
    return v


SEMANTIC_FIELDS = {
    'ObjectType': ('name', 'bases', 'ancestors', 'abstract', 'pointers', 'annotations'),
    'Property': ('name', 'source', 'target', 'required', 'cardinality', 'readonly', 'bases', 'ancestors', 'annotations'),
    'Link': ('name', 'source', 'target', 'required', 'cardinality', 'readonly', 'bases', 'ancestors', 'annotations'),
    'Annotation': ('name', 'inheritable'),
    'AnnotationValue': ('name', 'annotation', 'subject', 'value'),
    'ScalarType': ('name', 'bases', 'abstract'),
    'Module': ('name',),
}


def user_view(schema):
    """Structural description of the non-std part of a schema for comparing
    two schemas built along different routes: ids replaced by names, member
    order of refdicts ignored, and only the fields that carry meaning
    (SEMANTIC_FIELDS) with their *effective* values (an unset field counts as
    its default) - book-keeping such as inherited_fields or explicitly-set
    defaults differs between routes without the schemas differing."""
    out = {}
    for oid, tname in schema._id_to_type.items():
        key = describe(schema, oid) + ' : ' + tname
        if key.startswith('std::') or key.startswith('std :') or key.startswith('__schema_version__'):
            continue
        if tname in ('Array', 'Tuple', 'Range', 'MultiRange'):
            continue        # implicit collection types
        obj = schema.get_by_id(oid)
        fields = {}
        for fname in SEMANTIC_FIELDS.get(tname, ('name',)):
            try:
                v = obj.get_field_value(schema, fname)
            except Exception:
                v = obj.get_explicit_field_value(schema, fname, None)
            nv = _norm(_obs_value(schema, v))
            if nv is not None and nv != 'False':
                fields[fname] = nv
        out[key] = fields
    return out


def replay_as_ddl(schema_a, schema_b):
    """The migration a -> b computed by ddl.delta_schemas, rendered as DDL
    statements (qlast nodes, the structures the EdgeQL code generator prints)
    and applied statement by statement the way DDL text is applied - minus the
    text parser, which is not available here.  Returns (schema, ddl_text)."""
    from edb.edgeql import codegen as qlcodegen
    delta = s_ddl.delta_schemas(schema_a, schema_b)
    asts = s_ddl.ddlast_from_delta(schema_a, schema_b, delta)
    text = []
    cur = schema_a
    for st in asts:
        text.append(qlcodegen.generate_source(st, pretty=False))
        cur, _ = s_ddl.delta_and_schema_from_ddl(st, schema=cur, modaliases={None: 'default'})
    return cur, text
