"""`check.py <prop> --replay <file>`: re-execute a saved counterexample natively
against /repo's current tree and print what the real code does."""
import json
import tempfile

from . import xhair
from .xhair import Ob


def main(pid: str, path: str) -> int:
    v = json.load(open(path))
    if 'spec' in v and v.get('call') is not None:
        spec = v['spec']
        fields = {k: spec[k] for k in ('id', 'module', 'func', 'params', 'pre', 'post', 'raises', 'args') if k in spec}
        ob = Ob(**fields)
        with tempfile.TemporaryDirectory(prefix='verif_replay_') as d:
            rp = xhair.replay_native(ob, v['call'], d)
        print(json.dumps(rp, indent=1, default=repr))
        rep = xhair.reproduced(ob, rp)
        print('reproduced' if rep else 'not reproduced', '- property', pid, 'obligation', ob.id,
              'harness', ob.module + '.' + ob.func, 'call', v['call'])
        return 1 if rep else 0
    if v.get('replay_cmd'):
        import subprocess
        return subprocess.call(v['replay_cmd'], shell=True, env=xhair._env(), cwd=xhair.VERIF)
    print(json.dumps(v, indent=1)[:4000])
    print('no executable replay recorded for this entry')
    return 2
