import asyncio, collections, heapq

class Handle:
    __slots__ = ('cb', 'args', 'cancelled', 'ctx', 'when')
    def __init__(self, cb, args, ctx, when=None):
        self.cb, self.args, self.cancelled, self.ctx, self.when = cb, args, False, ctx, when
    def cancel(self): self.cancelled = True
    def cancelled_(self): return self.cancelled

class MiniLoop(asyncio.AbstractEventLoop):
    def __init__(self):
        self.ready = collections.deque()
        self.timers = []
        self.now = 0
        self.exc = []
    def get_debug(self): return False
    def time(self): return self.now
    def is_running(self): return True
    def is_closed(self): return False
    def create_future(self): return asyncio.Future(loop=self)
    def create_task(self, coro, *, name=None, context=None):
        return asyncio.Task(coro, loop=self, name=name, context=context)
    def call_soon(self, cb, *args, context=None):
        h = Handle(cb, args, context); self.ready.append(h); return h
    def call_later(self, delay, cb, *args, context=None):
        h = Handle(cb, args, context, when=delay); self.timers.append(h); return h
    def call_at(self, when, cb, *args, context=None):
        return self.call_later(when, cb, *args, context=context)
    def call_exception_handler(self, ctx): self.exc.append(ctx)
    def run_one(self):
        h = self.ready.popleft()
        if not h.cancelled:
            try:
                if h.ctx is not None: h.ctx.run(h.cb, *h.args)
                else: h.cb(*h.args)
            except Exception as e:
                # asyncio logs an exception raised by a callback and carries on
                self.exc.append({'message': 'exception in callback', 'exception': e})
    def run_ready(self, limit=10000):
        n = 0
        while self.ready and n < limit:
            self.run_one(); n += 1
        return n
    def fire_timer(self, i):
        h = self.timers.pop(i)
        if not h.cancelled: self.ready.append(h)
