"""C14 - descriptor ids are injective on structure (the decidable part of C14)."""
import os

from vlib import driver, xhair
from vlib.xhair import Ob

M = 'vlib.harness.C14_ids'


def obligations(tier):
    quick = tier == 'quick'
    T = float(os.environ.get('VERIF_XH_TIMEOUT') or (240 if quick else 1500))
    L = 2 if quick else 3
    ln = lambda *v: ' and '.join(f'len({x}) <= {L}' for x in v)   # noqa: E731
    p22 = 'a1: str, a2: str, b1: str, b2: str, ta: int, tb: int, ca: int, cb: int, la: bool, lb: bool, ia: bool, ib: bool'
    r22 = ['0 <= ta <= 1 and 0 <= tb <= 1 and 0 <= ca <= 3 and 0 <= cb <= 3', ln('a1', 'a2', 'b1', 'b2')]
    obs = [
    ] + [
        Ob(id=f'shape_2v2.a{la}{lb}.b{lc}{ld}', module=M, func='shape_2v2_nocolon', params=p22,
           pre=r22 + [f'len(a1) == {la} and len(a2) == {lb} and len(b1) == {lc} and len(b2) == {ld}'], timeout=T, group='shape',
           bound=f'two 2-element shapes, first shape names of length {la},{lb}, second shape names of length {lc},{ld}, '
                 f'|s| <= {L}, all of Unicode (without ":"), 2 subtype ids, 4 cardinalities, link and implicit-id flags')
        for la in range(1, L + 1) for lb in range(1, L + 1) for lc in range(0, L + 1) for ld in range(0, L + 1)
    ] + [
        Ob(id='shape_1v2', module=M, func='shape_1v2_nocolon', params='a1: str, b1: str, b2: str', pre=[ln('a1', 'b1', 'b2')],
           timeout=T, group='shape', bound=f'1- vs 2-element shape, names |s| <= {L} (without ":")'),
        Ob(id='tuple_2v2', module=M, func='tuple_2v2_nocolon', params='a1: str, a2: str, b1: str, b2: str, ta: int, tb: int',
           pre=['0 <= ta <= 1 and 0 <= tb <= 1', ln('a1', 'a2', 'b1', 'b2')], timeout=T, group='collection',
           bound=f'two named 2-tuples, names |s| <= {L} (without ":")'),
        Ob(id='tuple_named_vs_plain', module=M, func='tuple_named_vs_plain', params='a1: str, a2: str', pre=[ln('a1', 'a2')],
           timeout=T, group='collection', bound=f'names |s| <= {L}'),
        Ob(id='shape_vs_collection', module=M, func='shape_vs_collection', params='a1: str, b1: str, kind: int',
           pre=['0 <= kind <= 2', ln('a1', 'b1')], timeout=T, group='domain separation', bound=f'names |s| <= {L}; 3 shape kinds'),
        # known finding F5: un-narrowed instances; only counterexamples with ':' in a name are accepted as known
        Ob(id='shape_2v2.F5', module=M, func='shape_2v2', params=p22, pre=r22 + ['has_colon(a1, a2, b1, b2)'], timeout=T,
           group='F5', finding='F5', bound='names containing ":"'),
        Ob(id='tuple_2v2.F5', module=M, func='tuple_2v2', params='a1: str, a2: str, b1: str, b2: str, ta: int, tb: int',
           pre=['0 <= ta <= 1 and 0 <= tb <= 1', ln('a1', 'a2', 'b1', 'b2'), 'has_colon(a1, a2, b1, b2)'], timeout=T,
           group='F5', finding='F5', bound='names containing ":"'),
        Ob(id='twin.shape', module=M, func='shape_2v2_nocolon', params=p22, post='not _', expect='cex',
           pre=r22 + ['len(a1) == 1 and len(b1) == 1 and len(a2) == 1 and len(b2) == 1 and a1 != b1'], timeout=60, group='twin'),
    ]
    return obs


def run(tier, only=''):
    V = driver.Verdicts('C14', tier)
    obs = [o for o in obligations(tier) if only in o.id]
    driver.log(f'C14 {tier}: {len(obs)} CrossHair obligations')
    for ob, r in zip(obs, xhair.run_all(obs, log=driver.log)):
        V.add_xhair(ob, r)
    return V.finish(
        level='other',
        explanation=('Bounded symbolic verification (CrossHair/z3 string theory) that the key strings hashed into descriptor '
                     'ids are injective: for two symbolic descriptions (element names, sub-type ids, cardinalities, link / '
                     'link-property / implicit-id flags) equal keys imply equal descriptions, within each id function and '
                     'across them.'),
        bounds={'elements': '1-2 per shape / tuple', 'names': '|s| <= %d, all of Unicode' % (2 if tier == 'quick' else 3)},
        stubs=['sertypes.uuidgen.uuid5 replaced by the identity on its name argument (SHA-1 assumed collision-free, '
               'namespace constant)'],
        trusted_base=['CrossHair str model, z3 sequence theory'],
        assumptions=['element names: non-empty, no NUL, no "::" (what the lexer can express as a name)'],
        outside=['faithfulness of describe()/describe_params to the compiled shape, parse() round trip, protocol versions '
                 '(need compiled queries and the std schema)', 'more than 2 elements', 'element source types'],
    )
