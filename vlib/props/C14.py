"""C14 - descriptor ids are injective on structure (the decidable part of C14)."""
import os

from vlib import driver, xhair
from vlib.xhair import Ob

M = 'vlib.harness.C14_ids'


M2 = 'vlib.harness.C14_describe'


def _describe_obligations(tier):
    from vlib import shims
    shims.install()
    from vlib.harness import Q_family as F
    quick = tier == 'quick'
    T2 = float(os.environ.get('VERIF_XH_TIMEOUT') or (400 if quick else 1800))
    na, nw, nbin = F.NATOM, F.NWRAP, F.NBIN
    obs = [Ob(id='describe.form0', module=M2, func='descriptor_faithful', params='a: int, wa: int, proto: int',
              args='0, a, wa, 0, 0, proto', pre=[f'0 <= a < {na} and 0 <= wa < {nw} and 0 <= proto < 3'], timeout=T2, group='describe / parse',
              bound=f'W(atom): {na} x {nw} queries x protocol versions 1.0, 2.0, 3.0')]
    for lo in range(0, na, 8 if quick else 4):
        hi = min(na, lo + (8 if quick else 4))
        obs.append(Ob(id=f'describe.form1.a{lo}', module=M2, func='descriptor_faithful', params='a: int, wa: int, wb: int, proto: int',
                      args='1, a, wa, 0, wb, proto', pre=[f'{lo} <= a < {hi} and 0 <= wa < {nw} and 0 <= wb < {nw}',
                                                           'proto == 2' if quick else '0 <= proto < 3'], timeout=T2, group='describe / parse',
                      bound=f'W2(W1(atom)): atoms [{lo},{hi}) x {nw} x {nw}; protocol ' + ('3.0' if quick else '1.0, 2.0, 3.0')))
    for lo in range(0, na, 8):
        hi = min(na, lo + 8)
        obs.append(Ob(id=f'describe.form2.a{lo}', module=M2, func='descriptor_faithful', params='a: int, b: int, wb: int, proto: int',
                      args='2, a, 0, b, wb, proto', pre=[f'{lo} <= a < {hi} and 0 <= b < {na} and 0 <= wb < {nbin}',
                                                          'proto == 2' if quick else '0 <= proto < 3'], timeout=T2, group='describe / parse',
                      bound=f'BIN(atom a, atom b): a in [{lo},{hi}) x {na} x {nbin}'))
    obs.append(Ob(id='describe.F20', module=M2, func='tuple_name_stable', params='which: int', pre=['0 <= which < 2'], timeout=T2,
                  group='F20', finding='F20', bound='a tuple with an element reached through a FOR iterator / a WITH binding vs the plain tuple'))
    obs.append(Ob(id='twin.describe', module=M2, func='twin_shape', params='a: int', post='not _', expect='cex',
                  pre=['0 <= a < 3'], timeout=120, group='twin'))
    return obs


def obligations(tier):
    quick = tier == 'quick'
    T = float(os.environ.get('VERIF_XH_TIMEOUT') or (240 if quick else 1500))
    L = 2 if quick else 3
    L2 = 2        # the 2-vs-2 shape family stays at |s| <= 2 (144 partitions at |s| <= 3 do not fit a tier)
    ln = lambda *v: ' and '.join(f'len({x}) <= {L}' for x in v)   # noqa: E731
    p22 = 'a1: str, a2: str, b1: str, b2: str, ta: int, tb: int, ca: int, cb: int, la: bool, lb: bool, ia: bool, ib: bool'
    cmax = 1 if quick else 2
    r22 = [f'0 <= ta <= 1 and 0 <= tb <= 1 and 0 <= ca <= {cmax} and 0 <= cb <= {cmax}',
           ' and '.join(f'len({x}) <= {L2}' for x in ('a1', 'a2', 'b1', 'b2'))]
    obs = [
    ] + [
        Ob(id=f'shape_2v2.a{la}{lb}.b{lc}{ld}', module=M, func='shape_2v2_nocolon', params=p22,
           pre=r22 + [f'len(a1) == {la} and len(a2) == {lb} and len(b1) == {lc} and len(b2) == {ld}'], timeout=T, group='shape',
           bound=f'two 2-element shapes, first shape names of length {la},{lb}, second shape names of length {lc},{ld}, '
                 f'|s| <= {L}, all of Unicode (without ":"), 2 subtype ids, ' + ('2' if quick else '3') + ' cardinalities, link and implicit-id flags')
        for la in range(1, L2 + 1) for lb in range(1, L2 + 1) for lc in range(0, L2 + 1) for ld in range(0, L2 + 1)
    ] + [
        Ob(id='shape_1v2', module=M, func='shape_1v2_nocolon', params='a1: str, b1: str, b2: str', pre=[ln('a1', 'b1', 'b2')],
           timeout=T, group='shape', bound=f'1- vs 2-element shape, names |s| <= {L} (without ":")'),
        Ob(id='tuple_2v2', module=M, func='tuple_2v2_nocolon', params='a1: str, a2: str, b1: str, b2: str, ta: int, tb: int',
           pre=['0 <= ta <= 1 and 0 <= tb <= 1', ln('a1', 'a2', 'b1', 'b2')], timeout=T, group='collection',
           bound=f'two named 2-tuples, names |s| <= {L} (without ":")'),
        Ob(id='tuple_named_vs_plain', module=M, func='tuple_named_vs_plain', params='a1: str, a2: str', pre=[ln('a1', 'a2')],
           timeout=T, group='collection', bound=f'names |s| <= {L}'),
        Ob(id='shape_vs_collection', module=M, func='shape_vs_collection', params='a1: str, b1: str, kind: int',
           pre=['0 <= kind <= 2', ln('a1', 'b1')], timeout=T, group='domain separation', bound=f'names |s| <= {L}; 3 shape kinds'),
        # known finding F5: un-narrowed instances; only counterexamples with ':' in a name are accepted as known
        Ob(id='shape_2v2.F5', module=M, func='shape_2v2', params=p22, pre=r22 + ['has_colon(a1, a2, b1, b2)'], timeout=T,
           group='F5', finding='F5', bound='names containing ":"'),
        Ob(id='tuple_2v2.F5', module=M, func='tuple_2v2', params='a1: str, a2: str, b1: str, b2: str, ta: int, tb: int',
           pre=['0 <= ta <= 1 and 0 <= tb <= 1', ln('a1', 'a2', 'b1', 'b2'), 'has_colon(a1, a2, b1, b2)'], timeout=T,
           group='F5', finding='F5', bound='names containing ":"'),
    ] + _describe_obligations(tier) + [
        Ob(id='twin.shape', module=M, func='shape_2v2_nocolon', params=p22, post='not _', expect='cex',
           pre=r22 + ['len(a1) == 1 and len(b1) == 1 and len(a2) == 1 and len(b2) == 1 and a1 != b1'], timeout=60, group='twin'),
    ]
    return obs


def run(tier, only=''):
    V = driver.Verdicts('C14', tier)
    obs = [o for o in obligations(tier) if only in o.id]
    driver.log(f'C14 {tier}: {len(obs)} CrossHair obligations')
    for ob, r in zip(obs, xhair.run_all(obs, log=driver.log)):
        V.add_xhair(ob, r)
    return V.finish(
        level='other',
        explanation=('Bounded symbolic verification (CrossHair/z3 string theory) that the key strings hashed into descriptor '
                     'ids are injective: for two symbolic descriptions (element names, sub-type ids, cardinalities, link / '
                     'link-property / implicit-id flags) equal keys imply equal descriptions, within each id function and '
                     'across them. Second part (group "describe / parse"): every accepted query of a compositional family '
                     '(hand-built qlast) goes through the REAL server query path (_compile_ql_query: EdgeQL compiler, SQL compiler, '
                     'sertypes.describe / describe_params); the output and input descriptors are parsed back with sertypes.parse '
                     'under protocol versions 1.0 / 2.0 / 3.0 and must state exactly the element names in order, cardinalities, '
                     'element types and tuple structure of the result shape (taken from the IR the compiler produced) and the '
                     'names / types / required-ness of the parameters; the last descriptor is the reported type id; within an '
                     'obligation equal descriptor ids must come with byte-identical descriptors.'),
        bounds={'elements': '1-2 per shape / tuple', 'names': '|s| <= %d, all of Unicode' % (2 if tier == 'quick' else 3)},
        stubs=['sertypes.uuidgen.uuid5 replaced by the identity on its name argument (SHA-1 assumed collision-free, '
               'namespace constant)'],
        trusted_base=['CrossHair str model, z3 sequence theory'],
        assumptions=['element names: non-empty, no NUL, no "::" (what the lexer can express as a name)'],
        outside=['arrays, ranges, enums, named tuples, link properties (not in the query family)', 'more than 2 elements in the '
                 'id-injectivity part', 'element source types'],
    )
