"""C04 / C02 / C10 - the schema delta engine on hand-built DDL (no parser)."""
import os

from vlib import driver, xhair
from vlib.xhair import Ob

M = 'vlib.harness.C04_schema'

STUBS = ['a minimal stand-in for the std module (std::BaseObject, std::Object, std::str, std::int64, std::bool, std::uuid, std::sequence, abstract constraint std::exclusive, std::property, '
         'std::source, std::target, std::link, __schema_version__) created with hand-built commands in stdmode: the real '
         'standard library cannot be loaded without the parser',
         'user DDL is given as hand-built qlast DDL nodes (the nodes the parser would produce) and applied with '
         'ddl.delta_and_schema_from_ddl, i.e. through the real _cmd_tree_from_ast / apply code; only the text parser is skipped']
OUTSIDE = ['object classes other than object types, properties, links, abstract annotations and annotation values '
           '(constraints, indexes, functions, expressions, computed pointers, defaults, scalar/enum types: they need the parser '
           'and the real std library)', 'longer histories', 'more than 3 user types']


def _nmenu():
    from vlib.harness import C04_schema as H
    return H.NMENU, H.NMIG


def obligations_c04(tier):
    quick = tier == 'quick'
    T = float(os.environ.get('VERIF_XH_TIMEOUT') or (300 if quick else 1800))
    nmenu, _ = _nmenu()
    obs = []
    for r in range(4):
        if quick:
            for half in range(2):
                lo, hi = half * nmenu // 2, (half + 1) * nmenu // 2
                obs.append(Ob(id=f'history.recipe{r}.k2.half{half}', module=M, func='history', params='c0: int, c1: int',
                              args=f'{r}, 2, c0, c1, 0, 0', pre=[f'{lo} <= c0 < {hi} and 0 <= c1 < {nmenu}'], timeout=T,
                              group='histories',
                              bound=f'recipe {r} + any 2 of the {nmenu} menu commands (first in [{lo},{hi})), accepted or rejected'))
        else:
            for half in range(2):
                lo, hi = half * nmenu // 2, (half + 1) * nmenu // 2
                obs.append(Ob(id=f'history.recipe{r}.k2.half{half}', module=M, func='history', params='c0: int, c1: int',
                              args=f'{r}, 2, c0, c1, 0, 0', pre=[f'{lo} <= c0 < {hi} and 0 <= c1 < {nmenu}'], timeout=T,
                              group='histories', bound=f'recipe {r} + any 2 of the {nmenu} menu commands'))
            if r in (2, 3):
                from vlib import shims
                shims.install()
                from vlib.harness import C04_schema as H
                nacc = len(H.accepted_first(r))
                for i0 in range(nacc):
                    obs.append(Ob(id=f'history.recipe{r}.k3.first{i0}', module=M, func='history_after_accepted', params='c1: int, c2: int',
                                  args=f'{r}, {i0}, c1, c2', pre=[f'0 <= c1 < {nmenu} and 0 <= c2 < {nmenu}'], timeout=T,
                                  group='histories', bound=f'recipe {r} + its accepted command #{i0} + any 2 of the {nmenu} menu commands '
                                  '(a rejected first command leaves everything untouched: covered by the k2 histories)'))
    obs.append(Ob(id='twin.history', module=M, func='history', params='c0: int', post='not _', expect='cex',
                  args='2, 2, c0, 4, 0, 0', pre=['0 <= c0 <= 5'], timeout=120, group='twin'))
    return obs


def obligations_c02(tier):
    quick = tier == 'quick'
    T = float(os.environ.get('VERIF_XH_TIMEOUT') or (300 if quick else 1800))
    _, nmig = _nmenu()
    obs = []
    nrec = 4      # more recipes do not fit the thorough tier (each pair costs ~8 x 200 cpu-seconds); thorough = all 16 pairs, both sides
    for ra in range(nrec):
        for rb in range(nrec):
            if quick:
                obs.append(Ob(id=f'migration.A{ra}.B{rb}.one-sided', module=M, func='migration_reaches_target',
                              params='ka: int, a0: int, kb: int, b0: int', args=f'{ra}, ka, a0, 0, {rb}, kb, b0, 0',
                              pre=['0 <= ka <= 1 and 0 <= kb <= 1 and ka + kb <= 1', f'0 <= a0 < {nmig} and 0 <= b0 < {nmig}',
                                   '(ka == 1 or a0 == 0) and (kb == 1 or b0 == 0)'], timeout=T, group='migrations',
                              bound=f'A = recipe {ra}, B = recipe {rb}, at most one extra command (out of {nmig}) on one side'))
                if ra == rb:
                    for chunk in range(4):
                        lo, hi = chunk * nmig // 4, (chunk + 1) * nmig // 4
                        obs.append(Ob(id=f'migration.A{ra}.B{rb}.both.chunk{chunk}', module=M, func='migration_reaches_target',
                                      params='a0: int, b0: int', args=f'{ra}, 1, a0, 0, {rb}, 1, b0, 0',
                                      pre=[f'{lo} <= a0 < {hi} and 0 <= b0 < {nmig}'], timeout=T, group='migrations',
                                      bound=f'A = recipe {ra} + command a0 in [{lo},{hi}); B = recipe {rb} + any command'))
            else:
                for chunk in range(8):
                    lo, hi = chunk * nmig // 8, (chunk + 1) * nmig // 8
                    obs.append(Ob(id=f'migration.A{ra}.B{rb}.k1.chunk{chunk}', module=M, func='migration_reaches_target',
                                  params='ka: int, a0: int, kb: int, b0: int', args=f'{ra}, ka, a0, 0, {rb}, kb, b0, 0',
                                  pre=['0 <= ka <= 1 and 0 <= kb <= 1', f'{lo} <= a0 < {hi} and 0 <= b0 < {nmig}',
                                       '(ka == 1 or a0 == %d) and (kb == 1 or b0 == 0)' % lo], timeout=T, group='migrations',
                                  bound=f'A = recipe {ra} + at most one command (a0 in [{lo},{hi})); B = recipe {rb} + at most one command'))
    if quick:
        # the three-level chain (recipe 3: abstract T0 <- T1 <- T2) and the link / annotation recipe (2) against
        # themselves: a change to the middle type moves the ancestors of its DESCENDANT, whose own bases stay put
        for r in (6, 5):
            obs.append(Ob(id=f'migration.A{r}.B{r}.one-sided', module=M, func='migration_reaches_target',
                          params='ka: int, a0: int, kb: int, b0: int', args=f'{r}, ka, a0, 0, {r}, kb, b0, 0',
                          pre=['0 <= ka <= 1 and 0 <= kb <= 1 and ka + kb <= 1', f'0 <= a0 < {nmig} and 0 <= b0 < {nmig}',
                               '(ka == 1 or a0 == 0) and (kb == 1 or b0 == 0)'], timeout=T, group='migrations',
                          bound=f'A = B = recipe {r} (MIG_RECIPES index), at most one extra command (out of {nmig}) on one side'))
    # known finding F17: un-narrowed instance restricted to a witness family
    obs.append(Ob(id='migration.F17', module=M, func='migration_raw', params='b0: int', args=f'1, 0, 0, 0, 2, 1, b0, 0',
                  pre=[f'0 <= b0 < {nmig}'], timeout=T, group='F17', finding='F17',
                  bound='A = recipe 1 (T0; T1 extending T0); B = recipe 4 (T0 extending T1, T2) + one command'))
    obs.append(Ob(id='twin.migration', module=M, func='migration_reaches_target', params='b0: int', post='not _', expect='cex',
                  args='0, 0, 0, 0, 3, 1, b0, 0', pre=['0 <= b0 <= 3'], timeout=120, group='twin'))
    return obs


def obligations_c10(tier):
    quick = tier == 'quick'
    T = float(os.environ.get('VERIF_XH_TIMEOUT') or (300 if quick else 1800))
    _, nmig = _nmenu()
    obs = []
    nrec = 4 if quick else 7
    for r1 in range(nrec):
        for r2 in range(nrec):
            if quick:
                obs.append(Ob(id=f'path.S1_{r1}.S2_{r2}', module=M, func='path_independent', params='c1: int, c2: int',
                              args=f'{r1}, c1, {r2}, c2, {nmig}', pre=[f'0 <= c1 <= {nmig} and 0 <= c2 <= {nmig}', f'c1 == {nmig} or c2 == {nmig}'],
                              timeout=T, group='chains',
                              bound=f'empty -> S1 -> S2 vs empty -> S2, then -> empty; S1 = recipe {r1}, S2 = recipe {r2}, at most one '
                                    f'extra command (out of {nmig}) on one of them'))
            else:
                for chunk in range(8):
                    lo, hi = chunk * (nmig + 1) // 8, (chunk + 1) * (nmig + 1) // 8
                    obs.append(Ob(id=f'path.S1_{r1}.S2_{r2}.chunk{chunk}', module=M, func='path_independent', params='c1: int, c2: int',
                                  args=f'{r1}, c1, {r2}, c2, {nmig}', pre=[f'{lo} <= c1 < {hi} and 0 <= c2 <= {nmig}'], timeout=T,
                                  group='chains', bound=f'S1 = recipe {r1} + command c1 in [{lo},{hi}) ({nmig} = none), S2 = recipe {r2} + any / no command'))
    obs.append(Ob(id='twin.path', module=M, func='path_independent', params='c1: int', post='not _', expect='cex',
                  args=f'1, c1, 2, {nmig}, {nmig}', pre=['0 <= c1 <= 3'], timeout=120, group='twin'))
    return obs


def _run(pid, tier, only, obs, explanation, bounds, assumptions, extra_outside=()):
    V = driver.Verdicts(pid, tier)
    obs = [o for o in obs if only in o.id]
    driver.log(f'{pid} {tier}: {len(obs)} CrossHair obligations')
    for ob, r in zip(obs, xhair.run_all(obs, log=driver.log)):
        V.add_xhair(ob, r)
    return V.finish(level='model_checking', explanation=explanation, bounds=bounds, stubs=STUBS,
                    trusted_base=['integrity / structural-equality oracles in vlib/schema_kit.py (reverse index recomputed from '
                                  'forward references; schemas compared by names over the fields that carry meaning)',
                                  'CrossHair, z3'],
                    assumptions=assumptions, outside=OUTSIDE + list(extra_outside),
                    rule='states = histories / schema pairs that ran to the final comparison; transitions = commands or '
                         'migrations applied')


def run(tier, only=''):
    nmenu, _ = _nmenu()
    return _run('C04', tier, only, obligations_c04(tier),
                'Bounded model checking of DDL histories by symbolic execution (CrossHair/z3): the commands of a history are '
                'symbolic choices from a menu of %d DDL commands over 3 object types (create / drop / rename / re-base / abstract, '
                'properties, links, annotations); every history inside the bound is executed on the real delta machinery; after '
                'every command - accepted or rejected - the schema is referentially intact (every reference resolves, name / id / '
                'referrer look-ups agree with the objects\' data, dropped objects unreachable) and every schema value obtained '
                'earlier still observes exactly as before.' % nmenu,
                {'pre-states': '4 recipes built by DDL', 'commands per history': 2 if tier == 'quick' else 3, 'menu': nmenu},
                ['a command that raises is a rejected command'])
