"""C07 - access policies guard every read path."""
import os

from vlib import driver, xhair
from vlib.xhair import Ob

M = 'vlib.harness.C07_policies'


def _sizes():
    from vlib import shims
    shims.install()
    from vlib.harness import Q_family as F, C07_policies as H
    return F.NATOM, F.NWRAP, F.NBIN, H.NPLACE, H.NKIND


def obligations(tier):
    quick = tier == 'quick'
    T = float(os.environ.get('VERIF_XH_TIMEOUT') or (400 if quick else 1800))
    na, nw, nbin, npl, nkd = _sizes()
    obs = []

    def chunks(n, k):
        step = -(-n // k)
        return [(lo, min(n, lo + step)) for lo in range(0, n, step)]

    for pl in range(npl):
        for lo, hi in chunks(na, 2):
            obs.append(Ob(id=f'policy.form0.place{pl}.a{lo}', module=M, func='guarded', params='a: int, wa: int, kind: int',
                          args=f'0, a, wa, 0, 0, {pl}, kind', pre=[f'{lo} <= a < {hi} and 0 <= wa < {nw} and 0 <= kind < {nkd}'],
                          timeout=T, group='wrapped atom',
                          bound=f'W(atom): atoms [{lo},{hi}) x {nw} wrappers x {nkd} policy kinds; placement {pl}'))
    if quick:
        f1 = [(pl, 0, [7, 10, 13]) for pl in (0, 1, 3)]
        f2 = [(pl, 0, 0) for pl in (0, 3)]
    else:
        f1 = [(pl, kd, list(range(nw))) for pl in range(npl) for kd in (0, 2)]
        f2 = [(pl, kd, 0) for pl in range(npl) for kd in (0, 2)]
    for pl, kd, was in f1:
        for wa in was:
            obs.append(Ob(id=f'policy.form1.place{pl}.kind{kd}.w{wa}', module=M, func='guarded', params='a: int, wb: int',
                          args=f'1, a, {wa}, 0, wb, {pl}, {kd}', pre=[f'0 <= a < {na} and 0 <= wb < {nw}'], timeout=T,
                          group='two wrappers', bound=f'W2(W{wa}(atom)): {na} atoms x {nw} outer wrappers; placement {pl}, kind {kd}'))
    for pl, kd, wa in f2:
        for lo, hi in chunks(na, 4):
            obs.append(Ob(id=f'policy.form2.place{pl}.kind{kd}.w{wa}.a{lo}', module=M, func='guarded', params='a: int, b: int, wb: int',
                          args=f'2, a, {wa}, b, wb, {pl}, {kd}', pre=[f'{lo} <= a < {hi} and 0 <= b < {na} and 0 <= wb < {nbin}'],
                          timeout=T, group='binary',
                          bound=f'BIN(W{wa}(atom a), atom b): a in [{lo},{hi}), {na} atoms b, {nbin} forms; placement {pl}, kind {kd}'))
    obs.append(Ob(id='twin.rewrites-off', module=M, func='twin_unprotected', params='a: int, wa: int', post='_', expect='cex',
                  pre=[f'0 <= a < 2 and 0 <= wa < 2'], timeout=120, group='twin'))
    return obs


def run(tier, only=''):
    na, nw, nbin, npl, nkd = _sizes()
    V = driver.Verdicts('C07', tier)
    obs = [o for o in obligations(tier) if only in o.id]
    driver.log(f'C07 {tier}: {len(obs)} CrossHair obligations')
    for ob, r in zip(obs, xhair.run_all(obs, log=driver.log)):
        V.add_xhair(ob, r)
    return V.finish(
        level='other',
        explanation=('Bounded symbolic verification over a compositional family of READ-ONLY queries x placements of access policies x '
                     'policy kinds (symbolic choices, CrossHair/z3; each combination runs natively). Policies are created through the '
                     'real DDL path (qlast.CreateAccessPolicy) on Person, on its descendant Admin, on Post (a link target), or on two of '
                     'them; every policy condition compares a property with a unique marker string. Each query is compiled by the real '
                     'EdgeQL->IR compiler (with query rewrites on) and the real IR->SQL compiler. In the emitted SQL tree every read of '
                     'the table of a protected type (the subject type or a descendant) must be guarded: on the way from the table '
                     'reference to the statement root - following CTE references from their point of use - there is a SELECT that '
                     'filters (WHERE) on a condition containing a marker of a policy that applies to that type (directly, or through a '
                     'LATERAL sub-select of the same FROM list whose output the WHERE clause refers to, which is how the compiler emits '
                     'policy conditions). Reachability twin: with apply_query_rewrites=False the analysis reports unguarded reads.'),
        bounds={'atoms': na, 'wrappers': nw, 'binary forms': nbin, 'placements': npl, 'policy kinds': nkd,
                'quick': 'form0: everything; form1: inner wrapper in {filter, shape, for} under "allow select" on Person / Admin / Person+Post; '
                         'form2: identity wrapper under "allow select" on Person / Person+Post',
                'thorough': 'form1: all wrappers and placements, kinds {allow select; allow + deny}; form2: identity wrapper, all placements, same kinds'},
        stubs=['std stand-in + transcribed operators / functions (see C13)', 'policy conditions are qlast trees; where the schema layer '
               're-parses their stored text, a table-driven stand-in for parser.parse_fragment returns the registered tree'],
        trusted_base=['the guard-flow analysis in vlib/harness/C07_policies.py (Flow, 120 lines)', 'CrossHair, z3'],
        assumptions=['a read is "through the policy filter" when an enclosing SELECT filters on a condition containing that policy\'s marker; '
                     'whether the emitted condition is logically the policy (allow OR ..., AND NOT deny ...) is not decided',
                     'queries the compiler rejects are outside'],
        outside=['backlinks, aliases, computed pointers and globals (not in the query family)', 'policies with `when` conditions, '
                 'policies referring to other protected types (nested policy evaluation)', 'DML statements (read-only queries only)',
                 'future / configuration switches (apply_access_policies config, superuser bypass)'],
        rule='evaluations = (query, placement, kind) combinations executed; distinct_nontrivial = accepted queries analysed')
