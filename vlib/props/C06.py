"""C06 - cardinality bounds algebra (the part of C06 that has an executable
subject in this sandbox)."""
from vlib import driver, xhair
from vlib.xhair import Ob

M = 'vlib.harness.C06_card'


def obligations(tier):
    T = 120 if tier == 'quick' else 600
    kmax = 3
    obs = []
    cr = '0 <= c0 <= 3 and 0 <= c1 <= 3 and 0 <= c2 <= 3'
    for k in range(0, kmax + 1):
        for fn in ('cartesian_sound', 'union_sound'):
            obs.append(Ob(id=f'{fn}.k{k}', module=M, func=fn, group=fn,
                          params='k: int, c0: int, c1: int, c2: int, n0: int, n1: int, n2: int',
                          pre=[f'k == {k}', cr], timeout=T,
                          bound=f'{k} argument(s), each any of the 4 cardinalities; set sizes: unbounded non-negative integers'))
    obs.append(Ob(id='bounds_roundtrip', module=M, func='bounds_roundtrip', params='c: int, n: int',
                  pre=['0 <= c <= 3'], timeout=T, bound='4 cardinalities x any integer n'))
    obs.append(Ob(id='bound_add_sound', module=M, func='bound_add_sound', params='a: int, b: int, x: int, y: int',
                  pre=['0 <= a <= 2 and 0 <= b <= 2'], timeout=T, bound='3x3 bounds x any integers x, y'))
    obs.append(Ob(id='bound_mul_sound', module=M, func='bound_mul_sound', params='a: int, b: int, x: int, y: int',
                  pre=['0 <= a <= 2 and 0 <= b <= 2'], timeout=T, bound='3x3 bounds x any integers x, y'))
    obs.append(Ob(id='predicates_agree', module=M, func='predicates_agree', params='c: int, n: int',
                  pre=['0 <= c <= 3'], timeout=T, bound='4 cardinalities x any integer n'))
    obs.append(Ob(id='wire_enum_same_gamma', module=M, func='wire_enum_same_gamma', params='c: int, n: int',
                  pre=['0 <= c <= 3'], timeout=T, bound='4 cardinalities x any integer n'))
    obs.append(Ob(id='coalesce_sound', module=M, func='coalesce_sound', params='c0: int, c1: int, n0: int, n1: int',
                  pre=['0 <= c0 <= 3 and 0 <= c1 <= 3'], timeout=T, bound='4x4 cardinalities x any sizes'))
    # reachability twins
    obs.append(Ob(id='twin.cartesian', module=M, func='cartesian_sound', expect='cex', post='not _',
                  params='k: int, c0: int, c1: int, c2: int, n0: int, n1: int, n2: int',
                  pre=['k == 2', cr, 'n0 >= 2 and n1 >= 2'], timeout=60))
    obs.append(Ob(id='twin.union', module=M, func='union_sound', expect='cex', post='not _',
                  params='k: int, c0: int, c1: int, c2: int, n0: int, n1: int, n2: int',
                  pre=['k == 2', cr, 'n0 >= 2 and n1 >= 2'], timeout=60))
    return obs


def run(tier, only=''):
    V = driver.Verdicts('C06', tier)
    from vlib.props import C12
    obs = [o for o in obligations(tier) + C12.inference_obligations(tier, 0, 'card') if only in o.id]
    driver.log(f'C06 {tier}: {len(obs)} CrossHair obligations')
    for ob, r in zip(obs, xhair.run_all(obs, log=driver.log)):
        V.add_xhair(ob, r)
    return V.finish(
        level='other',
        explanation=('Bounded symbolic verification (CrossHair/z3, per path) of the cardinality algebra of '
                     'edb/edgeql/compiler/inference/cardinality.py against set-size semantics: for every tuple of '
                     'argument cardinalities and every tuple of set sizes in their concretisation, the size of the '
                     'cartesian product / union / coalescence lies in the concretisation of the cardinality the '
                     'real functions return. Set sizes are unbounded symbolic integers; a "Confirmed over all '
                     'paths" verdict covers all of them. Second part (obligations card.*): each accepted query of a compositional '
                     'family (symbolic choice of atom, wrappers, binary form; hand-built qlast) is compiled by the REAL EdgeQL '
                     'compiler and evaluated by a reference evaluator on every instance of a family of explicit databases x '
                     'parameter sets: the number of result elements lies in the inferred cardinality, and an inferred multiplicity '
                     'UNIQUE means a duplicate-free result. This exercises the __infer_* rules for paths over required / optional / '
                     'single / multi pointers, type intersections, LIMIT / OFFSET (constant, parameter, 0), FILTER, FOR, tuples, set '
                     'literals, UNION, DISTINCT, EXISTS, count, ??, IF/ELSE, IN, parameters (required / optional), DETACHED, shapes.'),
        bounds={'arguments': '0..3', 'cardinalities': 'ONE, AT_MOST_ONE, AT_LEAST_ONE, MANY',
                'set sizes': 'all integers (gamma restricts to the admissible ones)'},
        stubs=C12.COMMON['stubs'],
        trusted_base=['gamma(): concretisation of the four cardinalities (20 lines, in the harness)',
                      'CrossHair int/enum models, z3'] + C12.COMMON['trusted'],
        assumptions=['queries the compiler rejects are outside', 'FILTER on exclusive pointers is not exercised (concrete '
                     'constraints need compiled expressions with the real std library)'],
        outside=['more than 3 arguments of the bounds algebra'] + C12.COMMON['outside'],
    )
