"""C11 - SDL is declarative: declaration order does not matter."""
import os

from vlib import driver, xhair
from vlib.xhair import Ob
from vlib.props.C04 import STUBS

M = 'vlib.harness.C11_sdl'


def obligations(tier):
    quick = tier == 'quick'
    T = float(os.environ.get('VERIF_XH_TIMEOUT') or (300 if quick else 1800))
    obs = []
    for b0 in range(4):
        for b1 in range(4):
            if quick:
                params = 'b2: int, l0: int, ann: int, perm: int, flip: bool, split: bool'
                args = f'{b0}, {b1}, b2, l0, 0, 0, ann, True, perm, flip, split'
                pre = ['0 <= b2 <= 3 and 0 <= l0 <= 3', 'ann == 0 or ann == 3', '0 <= perm <= 23']
                bound = ('types A, B, C; A extends #%d, B extends #%d (0 = nothing, k = k-th type), C any; links from A and B to '
                         'any type or none (quick: from A only); annotation on A or none; every permutation of the (3 or 4) top-level declarations; '
                         'members of type bodies in both orders; one or two module blocks' % (b0, b1))
                obs.append(Ob(id=f'sdl.b0_{b0}.b1_{b1}', module=M, func='order_independent', params=params, args=args, pre=pre,
                              timeout=T, group='permutations', bound=bound))
            else:
                for l2 in range(4):
                    params = 'b2: int, l0: int, l1: int, ann: int, perm: int, flip: bool, split: bool'
                    args = f'{b0}, {b1}, b2, l0, l1, {l2}, ann, True, perm, flip, split'
                    pre = ['0 <= b2 <= 3 and 0 <= l0 <= 3 and 0 <= l1 <= 3', 'ann == 1 or ann == 3', '0 <= perm <= 23']
                    obs.append(Ob(id=f'sdl.b0_{b0}.b1_{b1}.l2_{l2}', module=M, func='order_independent', params=params, args=args,
                                  pre=pre, timeout=T, group='permutations',
                                  bound='as quick, plus links from B and from C (#%d), annotation on B or none, with properties' % l2))
    # one shared multi link `l`, overloaded where an ancestor declares it too (24576 documents x orders)
    for b0 in range(4):
        obs.append(Ob(id=f'sdl.shared-link.b0_{b0}', module=M, func='order_independent_shared',
                      params='b1: int, b2: int, l0: int, l1: int, l2: int, perm: int', args=f'{b0}, b1, b2, l0, l1, l2, perm, True',
                      pre=['0 <= b1 <= 3 and 0 <= b2 <= 3 and 0 <= l0 <= 3 and 0 <= l1 <= 3 and 0 <= l2 <= 3 and 0 <= perm <= 5'],
                      timeout=T, group='shared link',
                      bound='types A, B, C with any extending relation (A extends #%d); each type declares the multi link `l` to any '
                            'type or not at all, `overloaded` where an ancestor declares it; all 6 orders of the declarations; the '
                            'witness class of known finding F18 is excluded here and re-derived by sdl.F18' % b0))
    obs.append(Ob(id='sdl.F18', module=M, func='order_independent_shared', params='l2: int, perm: int',
                  args='0, 1, 2, 1, 2, l2, perm, False', pre=['0 <= l2 <= 3 and 0 <= perm <= 5'], timeout=T, group='F18', finding='F18',
                  bound='A { multi link l: A }, B extending A { overloaded multi link l: B }, C extending B { l: any / none }; all orders'))
    obs.append(Ob(id='twin.sdl', module=M, func='order_independent', params='perm: int', post='not _', expect='cex',
                  args='0, 1, 2, 2, 3, 0, 0, True, perm, True, True', pre=['0 <= perm <= 23'], timeout=120, group='twin'))
    return obs


def run(tier, only=''):
    V = driver.Verdicts('C11', tier)
    obs = [o for o in obligations(tier) if only in o.id]
    driver.log(f'C11 {tier}: {len(obs)} CrossHair obligations')
    for ob, r in zip(obs, xhair.run_all(obs, log=driver.log)):
        V.add_xhair(ob, r)
    return V.finish(
        level='model_checking',
        explanation=('Bounded model checking of SDL application by symbolic execution (CrossHair/z3): the structure of a small SDL '
                     'document (which type extends which, which type links to which, where the annotation goes) and the order of '
                     'its declarations (permutation of top-level declarations, order of type-body members, split into module '
                     'blocks) are symbolic choices; ddl.apply_sdl is run on the reference order and on the permuted document: '
                     'both must be accepted or both rejected, accepted documents must give structurally equal, referentially '
                     'intact schemas, and a dependency-cycle rejection may only happen when the extending relation really is cyclic.'),
        bounds={'types': 3, 'extending': 'each type extends nothing or one of the three (self / cyclic cases included)',
                'members': 'one property per type, optional link to any type, optional annotation value; second family: one shared '
                           '(overloaded) multi link',
                'orders': 'all permutations of the top-level declarations x body member order x module-block split'},
        stubs=STUBS[:1] + ['SDL documents are hand-built qlast.Schema nodes (no text parser)'],
        trusted_base=['structural-equality and integrity oracles in vlib/schema_kit.py', 'CrossHair, z3'],
        assumptions=['the reference order is types A, B, C then the annotation, members in declaration order, one module block'],
        outside=['declarations that need expressions (computed pointers, constraints, indexes, aliases, functions): they need the '
                 'parser and the real std library', 'several modules', 'more than 3 types'],
        rule='states = documents applied and compared; transitions = apply_sdl runs',
    )
