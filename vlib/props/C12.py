"""C12 - statically inferred result types match evaluated values (shares its harness with the
inference part of C06)."""
import os

from vlib import driver, xhair
from vlib.xhair import Ob

M = 'vlib.harness.C06_infer'


def sizes():
    from vlib import shims
    shims.install()
    from vlib.harness import Q_family as F
    from vlib import query_eval as E
    return F.NATOM, F.NWRAP, F.NBIN, E.NDB, E.NPARAM


def inference_obligations(tier, what, tag):
    quick = tier == 'quick'
    T = float(os.environ.get('VERIF_XH_TIMEOUT') or (400 if quick else 1800))
    na, nw, nbin, ndb, npar = sizes()
    obs = []
    fam = f'each evaluated on {ndb} database instances x {npar} parameter sets'
    obs.append(Ob(id=f'{tag}.form0', module=M, func='inferred_all', params='a: int, wa: int', args=f'0, a, wa, 0, 0, {what}',
                  pre=[f'0 <= a < {na} and 0 <= wa < {nw}'], timeout=T, group='wrapped atom', bound=f'W(atom): {na} x {nw} queries, {fam}'))
    step = 6 if quick else 3
    for lo in range(0, na, step):
        hi = min(na, lo + step)
        obs.append(Ob(id=f'{tag}.form1.a{lo}', module=M, func='inferred_all', params='a: int, wa: int, wb: int',
                      args=f'1, a, wa, 0, wb, {what}', pre=[f'{lo} <= a < {hi} and 0 <= wa < {nw} and 0 <= wb < {nw}'], timeout=T,
                      group='two wrappers', bound=f'W2(W1(atom)): atoms [{lo},{hi}) x {nw} x {nw}, {fam}'))
    for wa in ([0, 4] if quick else [0, 1, 4, 7, 8, 11]):
        for lo in range(0, na, 10):
            hi = min(na, lo + 10)
            obs.append(Ob(id=f'{tag}.form2.w{wa}.a{lo}', module=M, func='inferred_all', params='a: int, b: int, wb: int',
                          args=f'2, a, {wa}, b, wb, {what}', pre=[f'{lo} <= a < {hi} and 0 <= b < {na} and 0 <= wb < {nbin}'], timeout=T,
                          group='binary', bound=f'BIN(W{wa}(atom a), atom b): a in [{lo},{hi}), {na} x {nbin}, {fam}; pairs of paths from '
                          'the same root in one scope (path factoring) are skipped except under UNION'))
    obs.append(Ob(id=f'twin.{tag}', module=M, func='twin_nonempty', params='a: int, wa: int', post='not _', expect='cex',
                  pre=[f'0 <= a < {na} and 0 <= wa < {nw}'], timeout=120, group='twin'))
    return obs


COMMON = dict(
    stubs=['std stand-in + transcribed operators / functions (see C13)'],
    trusted=['the reference evaluator vlib/query_eval.py (150 lines) and the database family in it', 'CrossHair, z3'],
    outside=['queries outside the family (GROUP, ORDER BY, casts between scalar types, arrays, JSON, functions beyond count, link '
             'properties, backlinks)', 'two paths from the same root in one scope (path factoring) except under UNION',
             'database instances outside the family of explicit instances (<= 3 persons, <= 3 posts)'])


def run(tier, only=''):
    na, nw, nbin, ndb, npar = sizes()
    V = driver.Verdicts('C12', tier)
    obs = [o for o in inference_obligations(tier, 1, 'type') if only in o.id]
    driver.log(f'C12 {tier}: {len(obs)} CrossHair obligations')
    for ob, r in zip(obs, xhair.run_all(obs, log=driver.log)):
        V.add_xhair(ob, r)
    return V.finish(
        level='other',
        explanation=('Bounded symbolic verification over a compositional family of queries (symbolic choice of atom, wrappers and binary '
                     'form; CrossHair/z3). Each accepted query (hand-built qlast) is compiled by the REAL EdgeQL compiler; its inferred '
                     f'result type is compared with the values a reference evaluator computes for it on every one of {ndb} explicit '
                     f'database instances x {npar} parameter sets: strings / integers / booleans must be std::str / std::int64 / std::bool '
                     '(through scalar views), tuples must match the tuple structure element-wise, objects must be instances of the inferred '
                     'object type (sub-types allowed; Person <- Admin <- Chief, Post).'),
        bounds={'atoms': na, 'wrappers': nw, 'binary forms': nbin, 'database instances': ndb, 'parameter sets': npar},
        stubs=COMMON['stubs'], trusted_base=COMMON['trusted'],
        assumptions=['queries the compiler rejects are outside', 'the type reported to clients (descriptor) is not compared here (C14 / C13 cover descriptors)'],
        outside=COMMON['outside'] + ['mixed numeric types, arrays, implicit casts, overload resolution between numeric types (only str / int64 / bool exist in the stand-in)'],
        rule='evaluations = queries executed; distinct_nontrivial = queries accepted, evaluated on all instances and compared')
