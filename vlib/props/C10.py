from vlib.props import C04


def run(tier, only=''):
    return C04._run('C10', tier, only, C04.obligations_c10(tier),
                    'Bounded model checking of migration chains by symbolic execution (CrossHair/z3): empty -> S1 -> S2 through '
                    'computed migrations must end in the same schema as empty -> S2 directly and as S2 itself, and a final '
                    'migration to the empty schema must remove everything; S1 and S2 are recipes plus symbolic choices of DDL '
                    'commands.', {'chains': 'length 2 (+ the final migration to the empty schema)'},
                    ['a chain with a refused step is outside the statement'],
                    ['link properties'])
