"""C13 - generated SQL is well-scoped, parameter-consistent and deterministic."""
import json
import os
import subprocess
import time

from vlib import driver, xhair
from vlib.xhair import Ob

M = 'vlib.harness.C13_sql'


def _sizes():
    from vlib import shims
    shims.install()
    from vlib.harness import Q_family as F
    return F.NATOM, F.NWRAP, F.NBIN, F.NDML, F.NNEST


def obligations(tier):
    quick = tier == 'quick'
    T = float(os.environ.get('VERIF_XH_TIMEOUT') or (400 if quick else 1800))
    na, nw, nbin, ndml, nnest = _sizes()
    obs = []
    P5 = 'a: int, wa: int, b: int, wb: int'
    obs.append(Ob(id='sql.form0', module=M, func='sql_ok', params='a: int, wa: int', args='0, a, wa, 0, 0, True',
                  pre=[f'0 <= a < {na} and 0 <= wa < {nw}'], timeout=T, group='wrapped atom',
                  bound=f'W(atom): {na} atoms x {nw} wrappers'))
    # form 1: two wrappers
    step = 4 if quick else 2
    for lo in range(0, na, step):
        hi = min(na, lo + step)
        obs.append(Ob(id=f'sql.form1.a{lo}', module=M, func='sql_ok', params='a: int, wa: int, wb: int', args='1, a, wa, 0, wb, True',
                      pre=[f'{lo} <= a < {hi} and 0 <= wa < {nw} and 0 <= wb < {nw}'], timeout=T, group='two wrappers',
                      bound=f'W2(W1(atom)): atoms [{lo},{hi}) x {nw} x {nw} wrappers'))
    was = [0] if quick else list(range(0, nw, 2))
    for wa in was:
        for lo in range(0, na, 7):
            hi = min(na, lo + 7)
            obs.append(Ob(id=f'sql.form2.w{wa}.a{lo}', module=M, func='sql_ok', params='a: int, b: int, wb: int', args=f'2, a, {wa}, b, wb, True',
                          pre=[f'{lo} <= a < {hi} and 0 <= b < {na} and 0 <= wb < {nbin}'], timeout=T, group='binary',
                          bound=f'BIN(W{wa}(atom a), atom b): a in [{lo},{hi}), {na} atoms b, {nbin} binary forms'))
    # a WITH binding that the body does not use, holding a parameter, around bodies that use another parameter
    obs.append(Ob(id='sql.form2.unused-binding', module=M, func='sql_ok', params='a: int, wa: int, b: int', args=f'2, a, wa, b, {nbin - 1}, True',
                  pre=[f'0 <= a < {na} and (wa == 5 or wa == 7) and (b == 17 or b == 18 or b == 19 or b == 30 or b == 31)'], timeout=T,
                  group='binary', bound='with v := <parameter> select W(atom a), W in {LIMIT $n, FILTER .name = $s}: the parameter of the '
                  'unused binding must still be numbered consistently'))
    was = [0] if quick else [0, 7, 10]
    bsel = '(b == 0 or b == 3 or b == 15)' if quick else f'0 <= b < {na}'
    asel4 = '(a == 0 or a == 3 or a == 15)' if quick else f'0 <= a < {na}'
    for wa in was:
        for lo in range(0, na, 5 if quick else 2):
            hi = min(na, lo + (5 if quick else 2))
            obs.append(Ob(id=f'sql.form3.w{wa}.a{lo}', module=M, func='sql_ok', params='a: int, b: int, wb: int', args=f'3, a, {wa}, b, wb, True',
                          pre=[f'{lo} <= a < {hi} and {bsel} and 0 <= wb < {ndml}'], timeout=T, group='DML',
                          bound=f'{ndml} INSERT / UPDATE / DELETE / FOR-INSERT forms built around W{wa}(atom a), a in [{lo},{hi}), and atom b '
                                + ('in {Person, Person.name, a constant}' if quick else '(any)')))
        for lo in range(0, ndml, 2):
            obs.append(Ob(id=f'sql.form4.w{wa}.d{lo}', module=M, func='sql_ok', params='a: int, b: int, wb: int', args=f'4, a, {wa}, b, wb, True',
                          pre=[f'{asel4} and {lo} <= b < {lo + 2} and 0 <= wb < {nnest}'], timeout=T, group='nested DML',
                          bound=f'DML statements #{lo},{lo + 1} in one of {nnest} nesting contexts around W{wa}(atom a)'))
    # known finding F19 re-derived on its witness family
    obs.append(Ob(id='sql.F19', module=M, func='sql_ok', params='a: int, b: int', args='4, a, 0, b, 12, False',
                  pre=[f'0 <= a < 3 and 0 <= b < {ndml}'], timeout=T, group='F19', finding='F19',
                  bound='(DML) ?? (DML) for every DML form of the family'))
    obs.append(Ob(id='twin.accepts', module=M, func='twin_accepts', params='a: int, wa: int', post='not _', expect='cex',
                  pre=[f'0 <= a < {na} and 0 <= wa < {nw}'], timeout=120, group='twin'))
    return obs


_SEED_SCRIPT = r'''
import sys, json
sys.path.insert(0, %r)
from vlib import shims; shims.install()
from vlib.harness import C13_sql as H, Q_family as F
keys = [(0, a, wa, 0, 0) for a in range(F.NATOM) for wa in range(F.NWRAP)]
keys += [(3, a, 0, b, j) for a in range(0, F.NATOM, 3) for b in range(0, F.NATOM, 5) for j in range(F.NDML)]
keys += [(4, a, 0, b, j) for a in range(0, F.NATOM, 4) for b in range(F.NDML) for j in range(F.NNEST)]
keys += [(1, a, wa, 0, 10) for a in range(F.NATOM) for wa in range(F.NWRAP)]          # shapes (nested multi pointers) around every wrapped atom
keys += [(2, a, 0, b, j) for a in range(0, F.NATOM, 2) for b in range(0, F.NATOM, 3) for j in range(F.NBIN)]
print(json.dumps(H.sql_text_for_seed(keys)))
'''


def hash_seed_differential(V):
    """The same queries compiled in two fresh interpreters with different string-hash seeds
    must give identical SQL text and argument maps (every query of the listed sub-family)."""
    t0 = time.time()
    outs = []
    procs = []
    for seed in ('1', '4242'):
        env = xhair._env()
        env['PYTHONHASHSEED'] = seed
        procs.append(subprocess.Popen([xhair.VENV_PY, '-c', _SEED_SCRIPT % xhair.VERIF], stdout=subprocess.PIPE,
                                      stderr=subprocess.PIPE, text=True, env=env, cwd=xhair.VERIF))
    for p in procs:
        o, e = p.communicate(timeout=1500)
        line = [ln for ln in o.splitlines() if ln.startswith('{')]
        if not line:
            V.inconclusive.append('hash-seed differential: worker failed: ' + (e or o)[-300:])
            return
        outs.append(json.loads(line[-1]))
    a, b = outs
    diff = sorted(k for k in a if a[k] != b.get(k))
    n = len(a)
    if diff:
        k = diff[0]
        V.add_generic('determinism.hash-seed', False, group='determinism', solver_s=0,
                      violation={'call': f'query {k}: SQL text differs between PYTHONHASHSEED=1 and 4242',
                                 'detail': {'seed1': a[k][:600], 'seed4242': b[k][:600], 'differing': len(diff), 'of': n}})
    else:
        V.add_generic('determinism.hash-seed', True, group='determinism',
                      detail={'queries': n, 'seeds': [1, 4242], 'wall_s': round(time.time() - t0, 1)})


def run(tier, only=''):
    na, nw, nbin, ndml, nnest = _sizes()
    V = driver.Verdicts('C13', tier)
    obs = [o for o in obligations(tier) if only in o.id]
    driver.log(f'C13 {tier}: {len(obs)} CrossHair obligations')
    for ob, r in zip(obs, xhair.run_all(obs, log=driver.log)):
        V.add_xhair(ob, r)
    if only in 'determinism.hash-seed':
        hash_seed_differential(V)
    return V.finish(
        level='other',
        explanation=('Bounded symbolic verification over a compositional family of queries: which atom, which wrappers, which binary / '
                     'DML / nesting form are symbolic choices (CrossHair/z3 explores every feasible combination, each run natively). '
                     'Every query is a hand-built qlast tree (the node the parser would build) compiled by the REAL EdgeQL->IR and '
                     'IR->SQL compilers against a user schema (Person / Admin extending Person / Post with single, multi, required '
                     'and optional properties and links) on top of a transcribed fragment of the standard library. For every accepted '
                     'query: (1) every column reference of the emitted SQL tree resolves under PostgreSQL scoping rules - range '
                     'variables visible at the point of reference with LATERAL, CTE and sub-query rules, and output columns of '
                     'sub-selects / CTEs (vlib/sqlscope.py); (2) the $n parameters of the SQL tree and text are exactly those of the '
                     'argument map, numbered 1..n, names and required-ness equal to the query parameters; (3) a second compilation '
                     'from a fresh AST gives byte-identical SQL, argument map and type descriptors; (4) the same queries compiled in '
                     'two interpreters with different hash seeds give identical SQL.'),
        bounds={'atoms': na, 'wrappers': nw, 'binary forms': nbin, 'DML forms': ndml, 'nesting contexts': nnest,
                'quick': 'form0 all; form1 all; form2 with identity first wrapper; form3/4 with identity wrapper and 3 second atoms',
                'thorough': 'form2 with every second first-wrapper; form3/4 with first wrappers {identity, filter, shape}'},
        stubs=['std stand-in + operators/functions transcribed from edb/lib/std (=, !=, ?=, IN, EXISTS, DISTINCT, UNION, ??, IF, AND, OR, NOT, '
               '+, ++, count, uuid_generate_v1mc, BaseObject.id with its default, FreeObject, json)',
               'parser.parse_fragment serves exactly two fragments ("0", "std::uuid_generate_v1mc()") from a table',
               'edb._buildmeta.VERSION supplied by the harness', 'object ids drawn from a seeded counter instead of uuid1mc()'],
        trusted_base=['vlib/sqlscope.py: the PostgreSQL name-resolution model (columns of base tables are not checked)', 'CrossHair, z3'],
        assumptions=['a query the compilers reject (any EdgeDBError, including InternalServerError) is not an accepted query; '
                     'internal errors are counted under events["internal compiler error"]'],
        outside=['queries outside the family (GROUP, ORDER BY, aliases, globals, access policies, functions beyond count, casts between '
                 'scalar types, link properties, backlinks, polymorphic shapes)', 'whether PostgreSQL accepts the SQL (types, operators): '
                 'PostgreSQL is not in the sandbox', 'compile options other than the defaults (JSON output, singletons, ...)'],
        rule='evaluations = queries (feasible choice combinations) executed; distinct_nontrivial = accepted queries that passed every check')
