"""C19 - configuration commands compose and persist as specified."""
import os

from vlib import driver, xhair
from vlib.xhair import Ob

M = 'vlib.harness.C19_config'


def obligations(tier):
    quick = tier == 'quick'
    T = float(os.environ.get('VERIF_XH_TIMEOUT') or (200 if quick else 1200))
    L = 2 if quick else 3
    obs = []
    sp = ('p0: bool, p1: bool, p2: bool, a0: int, a1: int, a2: int, other: bool, op: int, sc: int, wrong: bool, '
          'vi: int, vb: bool, vs: str, ve: int')
    for si in range(4):
        for sc in range(3):
            obs.append(Ob(id=f'scalar_op.setting{si}.scope{sc}', module=M, func='scalar_op', params=sp,
                          args=f'{si}, p0, p1, p2, a0, a1, a2, other, op, {sc}, wrong, vi, vb, vs, ve',
                          pre=['0 <= op <= 1', '0 <= ve <= 2', f'len(vs) <= {L}'], group='scalar SET/RESET', timeout=T,
                          bound=f'setting kind {("int", "bool", "str", "enum")[si]}, target scope {sc}; pre-state: present/absent in each '
                                f'of 3 scopes with arbitrary int seeds; SET (well- or ill-typed) or RESET; values: any int, '
                                f'any bool, any str with |s| <= {L}, enum in/out of range'))
    obs.append(Ob(id='set_of_op', module=M, func='set_of_op', params='n: int, s0: str, s1: str, s2: str, bad: bool, sc: int, then_reset: bool',
                  pre=['0 <= n <= 3', '0 <= sc <= 2', f'len(s0) <= {L} and len(s1) <= {L} and len(s2) <= {L}'],
                  group='multi-valued', timeout=T, bound=f'set of <= 3 strings, each |s| <= {L}; optional ill-typed element; 3 scopes'))
    for sc in range(3):
        obs.append(Ob(id=f'json_roundtrip.scope{sc}', module=M, func='json_roundtrip',
                      params='pi: bool, pb: bool, ps: bool, pe: bool, vi: int, vb: bool, vs: str, ve: int',
                      args=f'pi, pb, ps, pe, vi, vb, vs, ve, {sc}',
                      pre=['0 <= ve <= 1', f'len(vs) <= {L}'], group='json', timeout=T,
                      bound=f'any subset of (int, bool, str, enum) settings with any int / bool / |s| <= {L} values at scope {sc}'))
    obs.append(Ob(id='op_from_json', module=M, func='op_from_json', params='oc: int, sc: int, si: int, vi: int, vs: str, use_str: bool',
                  pre=['0 <= oc <= 3 and 0 <= sc <= 2 and 0 <= si <= 3', f'len(vs) <= {L}'], group='json', timeout=T,
                  bound='4 opcodes x 3 scopes x 4 settings x any int / short str value'))
    for mode in range(3):
        obs.append(Ob(id=f'object_ops.mode{mode}', module=M, func='object_ops_idx', params='i0: int, i1: int, j0: int, j1: int, sc: int',
                      args=f'i0, i1, j0, j1, sc, {mode}',
                      pre=['0 <= sc <= 2', '0 <= i0 <= 2 and 0 <= i1 <= 2 and 0 <= j0 <= 2 and 0 <= j1 <= 2'],
                      group='object-valued', timeout=T,
                      bound=f'two Port objects, exclusive key from 3 constants, port from 3 constants; 3 scopes; mode {mode} '
                            f'(finite domain: objects are hashed, symbolic keys would be realised)'))
    obs.append(Ob(id='poly_object_ops', module=M, func='poly_object_ops', params='i0: int, i1: int, k0: int, k1: int, sc: int',
                  pre=['0 <= sc <= 2', '0 <= i0 <= 2 and 0 <= i1 <= 2 and 0 <= k0 <= 1 and 0 <= k1 <= 1'],
                  group='object-valued', timeout=T,
                  bound='two INSERTs of provider objects: subtype (2 concrete subtypes of a parent that declares the exclusive '
                        'field) x name (3 constants) each; 3 scopes'))
    obs.append(Ob(id='bad_object', module=M, func='bad_object', params='d0: str, q0: int, kind: int',
                  pre=['0 <= kind <= 3', f'len(d0) <= {L}'], group='object-valued', timeout=T, bound='4 kinds of ill-formed object'))
    obs.append(Ob(id='unknown_setting', module=M, func='unknown_setting', params='vi: int, oc: int', pre=['0 <= oc <= 1'],
                  group='scalar SET/RESET', timeout=T, bound='any int; SET / RESET of a name not in the spec'))
    # twins
    obs.append(Ob(id='duration_codec', module=M, func='duration_roundtrip', params='neg: bool, hi: int, mi: int, si: int, ui: int',
                  pre=['0 <= hi < 5 and 0 <= mi < 3 and 0 <= si < 3 and 0 <= ui < 6'], timeout=T, group='text codecs',
                  bound='durations sign x hours {0,1,12,25,100000} x minutes {0,1,59} x seconds {0,1,59} x microseconds '
                        '{0,1,100,250000,500000,999999}: ISO-8601, JSON and backend text forms read back to the same value'))
    obs.append(Ob(id='memory_codec', module=M, func='memory_roundtrip', params='mi: int', pre=['0 <= mi < 10'], timeout=T,
                  group='text codecs', bound='10 memory sizes around the unit boundaries'))
    obs.append(Ob(id='twin.scalar_op', module=M, func='scalar_op', params='vi: int, p1: bool', post='not _', expect='cex',
                  args='0, False, p1, True, 1, 2, 3, True, 0, 0, False, vi, False, "", 0', pre=['vi > 100'], timeout=60, group='twin'))
    obs.append(Ob(id='twin.object_ops', module=M, func='object_ops_idx', params='i0: int, i1: int', post='not _', expect='cex',
                  args='i0, i1, 1, 2, 0, 0', pre=['0 <= i0 <= 2 and 0 <= i1 <= 2 and i0 != i1'], timeout=60, group='twin'))
    obs.append(Ob(id='twin.json_roundtrip', module=M, func='json_roundtrip', params='vi: int, vs: str', post='not _', expect='cex',
                  args='True, True, True, True, vi, True, vs, 1, 2', pre=['len(vs) == 1', 'vi < -5'], timeout=60, group='twin'))
    return obs


def run(tier, only=''):
    V = driver.Verdicts('C19', tier)
    obs = [o for o in obligations(tier) if only in o.id]
    driver.log(f'C19 {tier}: {len(obs)} CrossHair obligations')
    for ob, r in zip(obs, xhair.run_all(obs, log=driver.log)):
        V.add_xhair(ob, r)
    return V.finish(
        level='other',
        explanation=('Bounded symbolic verification (CrossHair/z3) of the configuration-operation layer: for every pre-state '
                     '(setting present/absent per scope), every SET/RESET/ADD/REM operation with symbolic values - including '
                     'ill-typed, out-of-range and duplicate-key values - the effective value returned by config.lookup is the '
                     'one from the most specific scope that defines it (else the default), a rejected operation raises and '
                     'leaves every map object untouched, and to_json/from_json preserves name, value, source and scope.'),
        bounds={'string values': '|s| <= %d over all of Unicode' % (2 if tier == 'quick' else 3), 'integers': 'unbounded',
                'scopes': 3, 'settings': 'int, bool, str, enum, set-of-str, single object, set-of-object (hand-built FlatSpec)'},
        stubs=['ops.json replaced by the identity (the structure handed to the codec is analysed, not the C codec)'],
        trusted_base=['the "most specific scope wins" model in the harness (15 lines)', 'CrossHair, z3'],
        assumptions=['the hand-built FlatSpec stands for the generated one (the real spec is loaded from the std schema, which '
                     'cannot be built here)'],
        outside=['Duration / ConfigMemory text codecs beyond the structured finite family of the "text codecs" obligations (integer <-> '
                 'decimal text is out of reach of CrossHair and of the string solvers: the values are chosen symbolically from a '
                 'finite family and the codecs run natively)', 'to_edgeql -> re-parse (needs the parser)',
                 'compilation of CONFIGURE statements into operations (needs the std schema)', 'cfg:: object reflection'],
    )
