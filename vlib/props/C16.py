"""C16 - every connection request is eventually served (bounded
deadlock-freedom); shares harness and obligations builder with C15."""
from vlib.props import C15


def run(tier, only=''):
    return C15.run_for('C16', tier, only)
