"""C03 - DESCRIBE output rebuilds the same schema (statement level; no text parser)."""
import os

from vlib import driver, xhair
from vlib.xhair import Ob
from vlib.props import C04

M = 'vlib.harness.C03_describe'


def _sizes():
    from vlib import shims
    shims.install()
    from vlib.harness import C03_describe as H
    return H.NREC, H.NALL, H.NSESS, H.NSEED, {r: len(H.accepted_first(r)) for r in range(H.NREC)}


def obligations(tier):
    quick = tier == 'quick'
    T = float(os.environ.get('VERIF_XH_TIMEOUT') or (400 if quick else 1800))
    nrec, nall, nsess, nseed, nacc = _sizes()
    obs = []
    for r in range(nrec):
        obs.append(Ob(id=f'describe.recipe{r}.k01', module=M, func='describe_rebuilds',
                      params='k: int, c0: int, sdl: bool, session: int, idseed: int', args=f'{r}, k, c0, 0, sdl, session, idseed, True',
                      pre=[f'0 <= k <= 1 and 0 <= c0 < {nall} and 0 <= session < {nsess} and 0 <= idseed < {nseed}', 'k == 1 or c0 == 0'],
                      timeout=T, group='describe',
                      bound=f'recipe {r} + at most one of {nall} commands; DDL and SDL; all {nsess} sessions; {nseed} id sequences'))
        for sdl in (False, True):
            sessions = [2] if quick else list(range(nsess))
            for sess in sessions:
                obs.append(Ob(id=f"describe.recipe{r}.k2.{'sdl' if sdl else 'ddl'}.session{sess}", module=M,
                              func='describe_after_accepted', params='i0: int, c1: int, idseed: int',
                              args=f'{r}, i0, c1, {sdl}, {sess}, idseed',
                              pre=[f'0 <= i0 < {nacc[r]} and 0 <= c1 < {nall}',
                                   f'0 <= idseed < {nseed}' if sdl else 'idseed == 0'], timeout=T, group='describe',
                              bound=f"recipe {r} + one of the {nacc[r]} commands it accepts + one of {nall} commands; "
                                    f"{'SDL, ' + str(nseed) + ' id sequences' if sdl else 'DDL, id sequence 0'}; session {sess}"))
    # known finding F18: un-narrowed instance on the witness family
    from vlib.harness import C03_describe as H
    r3 = list(H.RECIPES).index(3)
    obs.append(Ob(id='describe.F18', module=M, func='describe_rebuilds', params='idseed: int', args=f'{r3}, 2, 40, 18, True, 2, idseed, False',
                  pre=[f'0 <= idseed < {nseed}'], timeout=T, group='F18', finding='F18',
                  bound='recipe 3 + two multi links forming a 3-level chain of overloaded links; SDL'))
    obs.append(Ob(id='twin.describe', module=M, func='describe_rebuilds', params='c0: int', post='not _', expect='cex',
                  args='1, 1, c0, 0, False, 0', pre=['0 <= c0 <= 3'], timeout=120, group='twin'))
    return obs


def run(tier, only=''):
    nrec, nall, nsess, nseed, _nacc = _sizes()
    V = driver.Verdicts('C03', tier)
    obs = [o for o in obligations(tier) if only in o.id]
    driver.log(f'C03 {tier}: {len(obs)} CrossHair obligations')
    for ob, r in zip(obs, xhair.run_all(obs, log=driver.log)):
        V.add_xhair(ob, r)
    return V.finish(
        level='model_checking',
        explanation=('Bounded model checking, by symbolic execution (CrossHair/z3) over symbolic choices, of what ddl_text_from_schema / '
                     'sdl_text_from_schema print: for every schema S inside the bound (recipe + chosen DDL commands) the statements of '
                     'statements_from_delta(None, S, delta_schemas(None, S)) - the nodes whose rendering is the DESCRIBE text - are '
                     'applied to a database that holds only the std stand-in: DDL statement by statement through '
                     'ddl.delta_and_schema_from_ddl, SDL as the qlast.Schema document (module blocks) through ddl.apply_sdl, under '
                     'every listed session setting (default module default / std / a module that does not exist / extra aliases). '
                     'The description must exist, be accepted, and rebuild a schema structurally equal to S and referentially intact. '
                     'The text parser is not available: that the text parses back to these nodes is property C01 and is NOT decided.'),
        bounds={'schemas': f'{nrec} recipes + at most {1 if False else 2} of {nall} DDL commands', 'languages': 'DDL, SDL',
                'sessions': nsess if tier != 'quick' else f'{nsess} for <= 1 command; session "default module = a module that does not exist" for 2 commands'},
        stubs=C04.STUBS + ['statement nodes instead of text: edgeql.codegen renders them (executed, output kept in replays) but nothing re-parses it'],
        trusted_base=['structural-equality and integrity oracles in vlib/schema_kit.py', 'CrossHair, z3'],
        assumptions=['a session alias whose name equals a module name used in the text (e.g. default -> std) is excluded: alias look-up '
                     'precedes module look-up by language definition, so such a session re-binds the names the text is written in',
                     'schemas whose description needs the real standard library to replay (re-targeted inherited link: `set type .. using`) '
                     'are not decided (event "needs the real std library")'],
        outside=C04.OUTSIDE + ['validity of the text as EdgeQL input (C01)', 'DESCRIBE through the server compiler'],
        rule='states = (schema, language, session) triples that ran to the final comparison; transitions = statements replayed')
