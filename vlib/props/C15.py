"""C15 (pool safety) and C16 (pool liveness) share one harness; this module
builds the obligations for both (C16.py delegates here)."""
import os

from vlib import driver, xhair
from vlib.xhair import Ob

M = 'vlib.harness.C15_pool'
# explore(cap, ndb, ha, ia, hb, ib, tick, dti, c0, c1, c2, c3, c4, k, check_liveness, exclude_f8, fault_level)

RECIPES = [
    # (name, cap, ndb, ha, ia, hb, ib, wb, wc): held / idle connections on a and b, requests queued on b and c
    ('empty.cap1.db2', 1, 2, 0, 0, 0, 0, 0, 0),
    ('idle-a.cap1.db2', 1, 2, 0, 1, 0, 0, 0, 0),
    ('held-a.cap1.db2', 1, 2, 1, 0, 0, 0, 0, 0),
    ('held-a+idle-b.cap2.db3', 2, 3, 1, 0, 0, 1, 0, 0),
    ('held-a+held-b.cap2.db3', 2, 3, 1, 0, 1, 0, 0, 0),
    ('held-a+idle-a.cap2.db2', 2, 2, 1, 1, 0, 0, 0, 0),
    ('2idle-a.cap2.db3', 2, 3, 0, 2, 0, 0, 0, 0),
    ('2held-a+idle-b.cap3.db3', 3, 3, 2, 0, 0, 1, 0, 0),
    ('3held-a+idle-a.cap4.db3.queued-b2-c2', 4, 3, 3, 1, 0, 0, 2, 2),
]


def _ob(pid, name, cap, ndb, ha, ia, hb, ib, wb, wc, k, live, fl, T, tick, dti, first=None, func='explore', finding=None):
    """tick / dti are concrete per obligation (so the recipe prefix and the
    pool code run natively); the schedule c0..c(k-1) is symbolic."""
    params, pre, cs = [], [], []
    for i in range(5):
        if i < k:
            if i == 0 and first is not None:
                cs.append(str(first))
            else:
                params.append(f'c{i}: int')
                pre.append(f'0 <= c{i} <= 17')
                cs.append(f'c{i}')
        else:
            cs.append('0')
    args = f'{cap}, {ndb}, {ha}, {ia}, {hb}, {ib}, {tick}, {dti}, {", ".join(cs)}, {k}, {live}'
    if func == 'explore':
        args += f', True, {fl}, {wb}, {wc}'
    oid = f'{name}.tick{int(tick)}.dt{dti}.k{k}' + (f'.first{first}' if first is not None else '') + f'.faults{fl}'
    return Ob(id=oid, module=M, func=func, params=', '.join(params), pre=pre, args=args, timeout=T,
              group=('liveness' if live else 'safety') + '.' + name, finding=finding,
              bound=f'recipe {name} (capacity {cap}, {ndb} databases; {ha} held + {ia} idle on a, {hb} held + {ib} idle on b; '
                    f'tick={tick}; clock increment #{dti} of {{0, 5 ms, 20 ms, 200 s}}) + {k} symbolic action(s), each any of the '
                    f'<= 18 enabled ones (acquire on any db, release, release-as-broken, complete/fail a connect, prune a database, prune all, complete'
                    + ('/fail' if fl >= 2 else '') + ' a disconnect, fire a timer)'
                    + (' + fair closure' if live else ''))


def obligations(pid, tier):
    quick = tier == 'quick'
    T = float(os.environ.get('VERIF_XH_TIMEOUT') or (300 if quick else 1800))
    live = pid == 'C16'
    obs = []
    kq = 3 if quick else 4
    fl = 1 if quick else 2
    for name, cap, ndb, ha, ia, hb, ib, wb, wc in RECIPES:
        for tick in (False, True):
            for dti in range(4):
                if quick:
                    obs.append(_ob(pid, name, cap, ndb, ha, ia, hb, ib, wb, wc, kq, live, fl, T, tick, dti))
                else:
                    for first in range(18):
                        obs.append(_ob(pid, name, cap, ndb, ha, ia, hb, ib, wb, wc, kq, live, fl, T, tick, dti, first=first))
    if live:
        # all connections idle on a, requests arrive for databases that own nothing: F8 is excluded only while the
        # pool is strictly below capacity (strict_f8), so starvation at full capacity is reported
        for name, cap, ndb, ha, ia, hb, ib, wb, wc in RECIPES:
            if name in ('idle-a.cap1.db2', '2idle-a.cap2.db3'):
                ob = _ob(pid, name, cap, ndb, ha, ia, hb, ib, wb, wc, 3, live, 1, T, False, 0)   # same size in both tiers
                ob.id = 'full-idle.' + ob.id
                ob.args += ', True'
                ob.bound += '; known finding F8 excluded only while the pool is strictly below its capacity'
                obs.append(ob)
        obs.append(Ob(id='connect_failures', module=M, func='connect_failures', params='cap: int, nwait: int, kind: int, good_first: bool',
                      pre=['1 <= cap <= 3', '1 <= nwait <= 4', '0 <= kind <= 1'], timeout=T, group='connect failures',
                      bound='capacity 1..3, 1..4 concurrent requests on one database; every connect fails (ordinary error until the '
                            'retries are exhausted, or 3D000), optionally after one successful connect'))
        # known finding F21: un-narrowed instance on the witness recipe (thorough: needs 4 actions and fault level 2)
        if not quick:
            obs.append(Ob(id='F21.acquire-after-aborted-prune', module=M, func='explore_raw2', params='c1: int, c2: int',
                          pre=['9 <= c1 <= 10 and 4 <= c2 <= 6'], args='2, 2, 1, 1, 0, 0, False, 0, 3, c1, c2, 0, 0, 4, True',
                          timeout=T, group='F21', finding='F21'))
        # known finding F8: un-narrowed instance, restricted to the witness recipe
        obs.append(Ob(id='F8.waitlisted-never-served', module=M, func='explore_raw', params='c0: int, c1: int',
                      pre=['0 <= c0 <= 11 and 0 <= c1 <= 11'],
                      args='1, 2, 0, 1, 0, 0, True, 3, c0, c1, 0, 0, 0, 2, True', timeout=T, group='F8', finding='F8',
                      bound='capacity 1, one idle connection on a, clock step 200 s, two symbolic actions + fair closure'))
        obs.append(Ob(id='twin.liveness', module=M, func='explore', params='c0: int', post='not _', expect='cex',
                      pre=['0 <= c0 <= 2'], args='2, 2, 1, 0, 0, 0, False, 1, c0, 0, 0, 0, 0, 1, True, True, 1', timeout=60, group='twin'))
    else:
        obs.append(Ob(id='twin.safety', module=M, func='explore', params='c0: int, c1: int', post='not _', expect='cex',
                      pre=['0 <= c0 <= 5 and 0 <= c1 <= 5'], args='2, 2, 1, 0, 0, 0, False, 1, c0, c1, 0, 0, 0, 2, False, True, 1',
                      timeout=60, group='twin'))
    return obs


COMMON = dict(
    stubs=['pool.time (clock read by the pool) advances by harness-chosen increments from {0, 5 ms, 20 ms, 200 s}',
           'asyncio event loop replaced by a 40-line deterministic loop (real asyncio.Future / Task); timers fire when the '
           'harness chooses, callbacks run to quiescence after every action',
           'connect / disconnect callbacks are harness coroutines completed or failed by the harness'],
    trusted_base=['ghost bookkeeping of open / opening / closing / broken connections in the harness', 'CrossHair, z3'],
    assumptions=['monitors are evaluated at quiescence (ready queue empty)',
                 'a disconnect callback that fails has still closed the backend connection'],
    outside=['pool2 (Rust)', '_NaivePool', 'cancellation of acquirers', 'more than 3 databases / capacity 3',
             'interleavings inside one run of the ready queue (single-callback stepping)', 'longer schedules'],
)


def run_for(pid, tier, only=''):
    V = driver.Verdicts(pid, tier)
    obs = [o for o in obligations(pid, tier) if only in o.id]
    driver.log(f'{pid} {tier}: {len(obs)} CrossHair obligations')
    for ob, r in zip(obs, xhair.run_all(obs, log=driver.log)):
        V.add_xhair(ob, r)
    if pid == 'C15':
        expl = ('Bounded model checking of the real connection pool by symbolic execution (CrossHair/z3): from pre-states built '
                'through the public API (recipes) every schedule of k symbolic actions is executed on the real Pool coroutines; '
                'after every action, at quiescence: open + opening <= max_capacity (broken hand-backs count as closed), a lent '
                'connection is open, belongs to the requested database and is lent once, pool.current_capacity = open + opening '
                '+ closing, and no unexpected exception escapes a pool task.')
    else:
        expl = ('Bounded deadlock-freedom of the real connection pool by symbolic execution (CrossHair/z3): after every schedule '
                'of k symbolic actions from a recipe pre-state a fixed fair continuation is applied (everything in flight '
                'completes, every holder releases, every timer fires, time passes - until eight rounds bring no progress) and '
                'every acquire() must have returned; when connecting keeps failing every waiting request must get the error.')
    return V.finish(
        level='model_checking', explanation=expl,
        bounds={'recipes': [r[0] for r in RECIPES], 'symbolic actions': 3 if tier == 'quick' else 4,
                'fault level': 'connect failures' if tier == 'quick' else 'connect failures, 3D000, disconnect failures',
                'clock increments': '{0, 5 ms, 20 ms, 200 s}'},
        rule='states = schedules that ran to the final check; transitions = actions applied (each followed by the monitor)',
        **COMMON)


def run(tier, only=''):
    return run_for('C15', tier, only)
