from vlib.props import C04


def run(tier, only=''):
    _, nmig = C04._nmenu()
    return C04._run('C02', tier, only, C04.obligations_c02(tier),
                    'Bounded model checking of computed migrations by symbolic execution (CrossHair/z3): schemas A and B are built '
                    'from recipes plus symbolic choices of DDL commands; ddl.delta_schemas(A, B) is applied to A directly and, '
                    'rendered as DDL statements (ddlast_from_delta), replayed statement by statement; whenever the migration is '
                    'accepted the result must equal B structurally (names, bases, ancestors, abstractness, pointers with target / '
                    'required / cardinality, annotations) and leave no residual delta.',
                    {'schemas': '4 recipes x at most %d extra command(s) per side out of %d' % (1 if tier == 'quick' else 2, nmig)},
                    ['a migration that is refused (an error while computing, applying or replaying it) is outside the statement; '
                     'the share of refused DDL replays is reported under events["ddl replay refused"]',
                     'DDL replay starts from the DDL statement nodes, not from text (no parser)'],
                    ['link properties'])
