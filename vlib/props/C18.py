"""C18 - quoted literals and identifiers cannot break out of their quotes."""
import itertools
import os
import random
import tempfile
import time

from vlib import driver, xhair
from vlib.xhair import Ob

M = 'vlib.harness.C18_quote'

NOSUR = 'no_surrogates(s)'
def _adv_pre(var='s'):
    return f'all(c in ADVSET for c in {var})'


def obligations(tier):
    quick = tier == 'quick'
    obs = []

    def add(fn, params, pres, *, group, bound, timeout, lens=None, var='s', extra=None, **kw):
        """One obligation per string length (the partition of the bound)."""
        if lens is None:
            obs.append(Ob(id=f'{group}', module=M, func=fn, params=params, pre=list(pres),
                          group=group, bound=bound, timeout=timeout, **kw))
            return
        for n in lens:
            obs.append(Ob(id=f'{group}.len{n}', module=M, func=fn, params=params,
                          pre=[f'len({var}) == {n}'] + list(pres), group=group,
                          bound=f'{bound}, |{var}| = {n}', timeout=timeout, **kw))

    T = 150 if quick else 900
    T = float(os.environ.get('VERIF_XH_TIMEOUT') or T)
    U = 2 if quick else 3          # full-Unicode length bound
    A = 3 if quick else 4          # adversarial-alphabet length bound
    uni = range(0, U + 1)
    advl = range(U + 1, A + 1)

    # 18.1 escaped string literal
    add('eql_quote_literal', 's: str', [NOSUR], group='18.1.quote_literal.unicode', lens=uni,
        bound='all Unicode scalar values', timeout=T)
    add('eql_quote_literal', 's: str', [_adv_pre()], group='18.1.quote_literal.adv', lens=advl,
        bound='adversarial alphabet', timeout=T)
    # 18.2 dollar-quoted literal
    add('eql_dollar_quote', 's: str', [NOSUR], group='18.2.dollar_quote.unicode', lens=uni,
        bound='all Unicode scalar values', timeout=T)
    add('eql_dollar_quote', 's: str', [_adv_pre()], group='18.2.dollar_quote.adv', lens=advl,
        bound='adversarial alphabet', timeout=T)
    # 18.3 identifiers
    add('eql_quote_ident', 's: str, allow_reserved: bool, force: bool', [NOSUR],
        group='18.3.quote_ident.unicode', lens=uni, bound='all Unicode scalar values x allow_reserved x force', timeout=T)
    add('eql_quote_ident', 's: str, allow_reserved: bool, force: bool', [_adv_pre()],
        group='18.3.quote_ident.adv', lens=advl, bound='adversarial alphabet x allow_reserved x force', timeout=T)
    # 18.4 parameters, qualified names
    add('eql_param', 's: str', [NOSUR], group='18.4.param.unicode', lens=uni,
        bound='all Unicode scalar values', timeout=T)
    add('eql_param', 's: str', [_adv_pre()], group='18.4.param.adv', lens=advl,
        bound='adversarial alphabet', timeout=T)
    add('eql_ident_to_str', 'a: str, b: str', ['no_surrogates(a) and no_surrogates(b)', 'len(a) <= 2 and len(b) <= 2'],
        group='18.4.ident_to_str', bound='two names, each |.| <= 2, all Unicode', timeout=T)
    # 18.5 string constants through the code generator
    add('eql_codegen_str', 's: str, pretty: bool', [NOSUR], group='18.5.codegen_str.unicode', lens=uni,
        bound='all Unicode scalar values x pretty', timeout=T)
    add('eql_codegen_str', 's: str, pretty: bool', [_adv_pre()], group='18.5.codegen_str.adv', lens=advl,
        bound='adversarial alphabet x pretty', timeout=T)
    # 18.6 bytes constants
    add('eql_codegen_bytes', 'b: bytes', [], group='18.6.codegen_bytes', lens=range(0, (3 if quick else 4) + 1), var='b',
        bound='all byte values', timeout=T)
    # 18.7 PostgreSQL string constants
    add('pg_quote_literal', 's: str', [NOSUR], group='18.7.pg_quote_literal.unicode', lens=range(0, U + 2),
        bound='all Unicode scalar values', timeout=T)
    add('pg_string_constant_node', 's: str', [NOSUR], group='18.7.pg_string_constant', lens=uni,
        bound='all Unicode scalar values', timeout=T)
    # 18.8 PostgreSQL identifiers
    add('pg_quote_ident', 's: str, force: bool, column: bool', [NOSUR], group='18.8.pg_quote_ident.unicode', lens=uni,
        bound='all Unicode scalar values x force x column', timeout=T)
    add('pg_quote_ident', 's: str, force: bool, column: bool', [_adv_pre()], group='18.8.pg_quote_ident.adv', lens=advl,
        bound='adversarial alphabet x force x column', timeout=T)
    add('pg_qname', 'a: str, b: str', ['no_surrogates(a) and no_surrogates(b)', 'len(a) <= 2 and len(b) <= 2'],
        group='18.8.pg_qname', bound='two names, each |.| <= 2, all Unicode', timeout=T)
    add('pg_quote_type', 'a: str, b: str, arr: bool', ['no_surrogates(a) and no_surrogates(b)', 'len(a) <= 1 and len(b) <= 2'],
        group='18.8.pg_quote_type', bound='schema |.| <= 1, name |.| <= 2, all Unicode, optional []', timeout=T)

    # reachability twins (post negated: some in-domain input must reach the comparison and pass it)
    for fn, params, pre in (
            ('eql_quote_literal', 's: str', ['len(s) == 2', 's[0] == "\'"']),
            ('eql_dollar_quote', 's: str', ['len(s) == 2', 's[0] == "a"']),
            ('eql_quote_ident', 's: str, allow_reserved: bool, force: bool', ['len(s) == 2', 's[0] == " "']),
            ('eql_param', 's: str', ['len(s) == 2', 's[0] == "a"']),
            ('eql_codegen_str', 's: str, pretty: bool', ['len(s) == 2', 's[0] == "\'"']),
            ('eql_codegen_bytes', 'b: bytes', ['len(b) == 2', 'b[0] == 10']),
            ('pg_quote_literal', 's: str', ['len(s) == 2', 's[0] == "\'"']),
            ('pg_quote_ident', 's: str, force: bool, column: bool', ['len(s) == 2', 's[0] == "A"']),
    ):
        obs.append(Ob(id='twin.' + fn, module=M, func=fn, params=params, pre=pre, post='not _',
                      expect='cex', timeout=60, group='twin'))
    return obs


def run(tier, only=''):
    V = driver.Verdicts('C18', tier)
    from vlib.oracle import lexer, tables
    scratch = tempfile.mkdtemp(prefix='verif_c18_')
    try:
        t0 = time.time()
        try:
            lexer.build(scratch)
        except lexer.BuildError as e:
            driver.log('cannot build the real lexer from /repo: %s' % e)
            V.inconclusive.append('lexer oracle build failed: %s' % str(e)[-500:])
            return V.finish(level='other', explanation='oracle build failed', bounds={}, stubs=[], trusted_base=[],
                            assumptions=[], subjects=[])
        tables.dump(os.path.join(scratch, 'tables.json'))
        driver.log('C18: real lexer built from /repo in %.1fs' % (time.time() - t0))
        obs = [o for o in obligations(tier) if only in o.id]
        driver.log(f'C18 {tier}: {len(obs)} CrossHair obligations')
        for ob, r in zip(obs, xhair.run_all(obs, log=driver.log)):
            V.add_xhair(ob, r)
    finally:
        import shutil
        shutil.rmtree(scratch, ignore_errors=True)
    return V.finish(
        level='other',
        explanation='bounded symbolic verification of quoting functions',
        bounds={}, stubs=[], trusted_base=[], assumptions=[],
    )
