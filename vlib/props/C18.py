"""C18 - quoted literals and identifiers cannot break out of their quotes."""
import itertools
import os
import random
import tempfile
import time

from vlib import driver, xhair
from vlib.xhair import Ob

M = 'vlib.harness.C18_quote'

NOSUR = 'no_surrogates(s)'
def _adv_pre(var='s'):
    return f'all(c in ADVSET for c in {var})'


FIRST4 = [('lt48', 'ord(s[0]) < 48'), ('48to64', '48 <= ord(s[0]) < 65'), ('65to96', '65 <= ord(s[0]) < 97'),
          ('ge97', 'ord(s[0]) >= 97')]
UNI_FIRST = [('ascii', 'ord(s[0]) < 128'), ('latin', '128 <= ord(s[0]) < 0x300'), ('bmp1', '0x300 <= ord(s[0]) < 0x2000'),
             ('bmp2', '0x2000 <= ord(s[0]) < 0x3000'), ('bmp3', '0x3000 <= ord(s[0]) < 0x10000'), ('astral', 'ord(s[0]) >= 0x10000')]


def obligations(tier):
    quick = tier == 'quick'
    obs = []
    T = 300 if quick else 1800
    T = float(os.environ.get('VERIF_XH_TIMEOUT') or T)

    def add(fn, params, pres, *, group, bound, lens=None, var='s', parts=None, timeout=None, **kw):
        """One obligation per string length and per partition (the partition
        predicates are exhaustive, so their union is the stated bound)."""
        for n in (lens if lens is not None else [None]):
            for pname, ppre in (parts or [('', None)]):
                oid = group + ('.len%d' % n if n is not None else '') + ('.' + pname if pname else '')
                pre = ([f'len({var}) == {n}'] if n is not None else []) + list(pres) + ([ppre] if ppre else [])
                b = bound + (f', |{var}| = {n}' if n is not None else '') + (f', partition {pname}: {ppre}' if ppre else '')
                obs.append(Ob(id=oid, module=M, func=fn, params=params, pre=pre or ['True'], group=group, bound=b,
                              timeout=timeout or T, **kw))

    ASCII = 'is_ascii(s)'
    ADV = _adv_pre()
    uni = 'all Unicode scalar values'
    # ---- 18.1 escaped string literal ------------------------------------------
    add('eql_quote_literal', 's: str', [NOSUR], group='18.1.quote_literal.unicode', lens=range(0, 3), bound=uni)
    if not quick:
        add('eql_quote_literal', 's: str', [ADV], group='18.1.quote_literal.adv', lens=[3], bound='adversarial alphabet')
        add('eql_quote_literal', 's: str', [NOSUR], group='18.1.quote_literal.unicode', lens=[3], bound=uni, parts=UNI_FIRST)
        add('eql_quote_literal', 's: str', [ADV], group='18.1.quote_literal.adv', lens=[4], bound='adversarial alphabet',
            parts=[('q', "s[0] in '\'\"`$'"), ('nq', "s[0] not in '\'\"`$'")])
    # ---- 18.2 dollar-quoted literal ---------------------------------------------
    add('eql_dollar_quote', 's: str', [NOSUR], group='18.2.dollar_quote.unicode', lens=range(0, 4), bound=uni)
    add('eql_dollar_quote', 's: str', [ADV], group='18.2.dollar_quote.adv', lens=[4], bound='adversarial alphabet')
    if not quick:
        add('eql_dollar_quote', 's: str', [NOSUR], group='18.2.dollar_quote.unicode', lens=[4], bound=uni)
        add('eql_dollar_quote', 's: str', [ADV], group='18.2.dollar_quote.adv', lens=[5, 6], bound='adversarial alphabet')
    # ---- 18.3 identifiers ----------------------------------------------------------
    ip = 's: str, allow_reserved: bool, force: bool'
    add('eql_quote_ident', ip, [NOSUR], group='18.3.quote_ident.unicode', lens=[0, 1], bound=uni + ' x allow_reserved x force')
    add('eql_quote_ident', ip, [ASCII, 'not force'], group='18.3.quote_ident.ascii', lens=[2], parts=FIRST4[:2],
        bound='ASCII x allow_reserved, force=False')
    add('eql_quote_ident', ip, [ASCII, 'force'], group='18.3.quote_ident.ascii.forced', lens=[2], bound='ASCII x allow_reserved, force=True')
    if not quick:
        add('eql_quote_ident', ip, [ASCII, 'not force'], group='18.3.quote_ident.ascii', lens=[2],
            parts=[(n + ('.res' if r else '.nores'), p + (' and allow_reserved' if r else ' and not allow_reserved'))
                   for n, p in FIRST4[2:] for r in (False, True)],
            bound='ASCII, force=False')
        add('eql_quote_ident', ip, [NOSUR, 'not force'], group='18.3.quote_ident.unicode', lens=[2], parts=UNI_FIRST,
            bound=uni + ' x allow_reserved, force=False')
        add('eql_quote_ident', ip, [ASCII, 'not force'], group='18.3.quote_ident.ascii', lens=[3], parts=FIRST4,
            bound='ASCII x allow_reserved, force=False')
    # ---- 18.4 parameters, qualified names ------------------------------------------
    add('eql_param', 's: str', [NOSUR], group='18.4.param.unicode', lens=[0, 1], bound=uni)
    add('eql_param', 's: str', [ASCII], group='18.4.param.ascii', lens=[2], parts=FIRST4, bound='ASCII')
    if not quick:
        add('eql_ident_to_str', 'a: str, b: str', ['is_ascii(a) and is_ascii(b)', 'len(a) <= 1 and len(b) <= 1'],
            group='18.4.ident_to_str', bound='two names, each |.| <= 1, ASCII',
            parts=[('lt65', 'len(a) == 0 or ord(a[0]) < 65'), ('ge65', 'len(a) == 1 and ord(a[0]) >= 65')])
        add('eql_ident_to_str', 'a: str, b: str', ['no_surrogates(a) and no_surrogates(b)', 'len(a) == 1 and len(b) == 1'],
            group='18.4.ident_to_str.unicode', bound='two names, each |.| = 1, all Unicode')
        add('eql_param', 's: str', [NOSUR], group='18.4.param.unicode', lens=[2], parts=UNI_FIRST, bound=uni)
        add('eql_param', 's: str', [ASCII], group='18.4.param.ascii', lens=[3], parts=FIRST4, bound='ASCII')
        add('eql_ident_to_str', 'a: str, b: str', ['is_ascii(a) and is_ascii(b)', 'len(a) == 2 and len(b) <= 2'],
            group='18.4.ident_to_str.ascii2', bound='two ASCII names, |a| = 2, |b| <= 2')
    # ---- 18.5 string constants through the code generator ----------------------------
    cp = 's: str, pretty: bool'
    add('eql_codegen_str', cp, [NOSUR], group='18.5.codegen_str.unicode', lens=[0, 1], bound=uni + ' x pretty')
    add('eql_codegen_str', cp, [ASCII], group='18.5.codegen_str.ascii', lens=[2], bound='ASCII x pretty',
        parts=[('lt16', 'ord(s[0]) < 16'), ('16to31', '16 <= ord(s[0]) < 32'), ('32to47', '32 <= ord(s[0]) < 48')] + FIRST4[1:])
    if not quick:
        add('eql_codegen_str', cp, [NOSUR, 'not pretty'], group='18.5.codegen_str.unicode', lens=[2], parts=UNI_FIRST, bound=uni)
        add('eql_codegen_str', cp, [ADV, 'not pretty'], group='18.5.codegen_str.adv', lens=[3], bound='adversarial alphabet',
            parts=[('q', "s[0] in '\'\"`$'"), ('nq', "s[0] not in '\'\"`$'")])
    # ---- 18.6 bytes constants -----------------------------------------------------------
    add('eql_codegen_bytes', 'b: bytes', [], group='18.6.codegen_bytes', lens=[0, 1], var='b', bound='all byte values')
    firsts = [32, 80] if quick else list(range(0, 128, 16))
    add('eql_codegen_bytes', 'b: bytes', [], group='18.6.codegen_bytes', lens=[2], var='b', bound='all byte values',
        parts=[('first%d' % lo, f'{lo} <= b[0] < {lo + 16}') for lo in firsts])
    firsts = [248] if quick else list(range(128, 256, 8))
    add('eql_codegen_bytes', 'b: bytes', [], group='18.6.codegen_bytes', lens=[2], var='b', bound='all byte values',
        parts=[('first%d' % lo, f'{lo} <= b[0] < {lo + 8}') for lo in firsts])
    if not quick:
        add('eql_codegen_bytes', 'b: bytes', ['b[0] == 92'], group='18.6.codegen_bytes.bs', lens=[3], var='b',
            bound='first byte a backslash, others any',
            parts=[('second%d' % lo, f'{lo} <= b[1] < {lo + 32}') for lo in range(0, 256, 32)])
    # ---- 18.7 PostgreSQL string constants ----------------------------------------------
    add('pg_quote_literal', 's: str', [NOSUR], group='18.7.pg_quote_literal.unicode', lens=range(0, 6 if quick else 7), bound=uni)
    add('pg_string_constant_node', 's: str', [NOSUR], group='18.7.pg_string_constant', lens=range(0, 3 if quick else 5), bound=uni)
    # ---- 18.8 PostgreSQL identifiers -----------------------------------------------------
    pp = 's: str, force: bool, column: bool'
    add('pg_quote_ident', pp, [NOSUR], group='18.8.pg_quote_ident.unicode', lens=[0, 1], bound=uni + ' x force x column')
    add('pg_quote_ident', pp, [ASCII, 'not force'], group='18.8.pg_quote_ident.ascii', lens=[2], parts=FIRST4,
        bound='ASCII x column, force=False')
    if not quick:
        q4 = [('lt48', 'ord(a[0]) < 48'), ('48to64', '48 <= ord(a[0]) < 65'), ('65to96', '65 <= ord(a[0]) < 97'), ('ge97', 'ord(a[0]) >= 97')]
        add('pg_qname', 'a: str, b: str', ['is_ascii(a) and is_ascii(b)', 'len(a) == 1 and len(b) == 1'],
            group='18.8.pg_qname', bound='two names, each |.| = 1, ASCII', parts=q4)
        add('pg_quote_type', 'a: str, b: str, arr: bool', ['is_ascii(a) and is_ascii(b)', 'len(a) == 1 and len(b) == 1'],
            group='18.8.pg_quote_type', bound='schema and name |.| = 1, ASCII, optional []', parts=q4)
        add('pg_qname', 'a: str, b: str', ['no_surrogates(a) and no_surrogates(b)', 'len(a) == 1 and len(b) == 1'],
            group='18.8.pg_qname.unicode', bound='two names, each |.| = 1, all Unicode', parts=[(n, p.replace('s[0]', 'a[0]')) for n, p in UNI_FIRST])
        add('pg_quote_ident', pp, [NOSUR, 'not force'], group='18.8.pg_quote_ident.unicode', lens=[2], parts=UNI_FIRST,
            bound=uni + ' x column, force=False')
        add('pg_quote_ident', pp, [ASCII, 'not force'], group='18.8.pg_quote_ident.ascii', lens=[3], parts=FIRST4,
            bound='ASCII x column, force=False')
        add('pg_qname', 'a: str, b: str', ['is_ascii(a) and is_ascii(b)', 'len(a) == 2 and len(b) <= 2'],
            group='18.8.pg_qname.ascii2', bound='two ASCII names, |a| = 2, |b| <= 2')

    # reachability twins (post negated: some in-domain input must reach the comparison and pass it)
    for fn, params, pre in (
            ('eql_quote_literal', 's: str', ['len(s) == 2', 's[0] == "\'"']),
            ('eql_dollar_quote', 's: str', ['len(s) == 2', 's[0] == "a"']),
            ('eql_quote_ident', 's: str, allow_reserved: bool, force: bool', ['len(s) == 2', 's[0] == " "']),
            ('eql_param', 's: str', ['len(s) == 2', 's[0] == "a"']),
            ('eql_codegen_str', 's: str, pretty: bool', ['len(s) == 2', 's[0] == "\'"']),
            ('eql_codegen_bytes', 'b: bytes', ['len(b) == 2', 'b[0] == 10']),
            ('pg_quote_literal', 's: str', ['len(s) == 2', 's[0] == "\'"']),
            ('pg_quote_ident', 's: str, force: bool, column: bool', ['len(s) == 2', 's[0] == "A"']),
    ):
        obs.append(Ob(id='twin.' + fn, module=M, func=fn, params=params, pre=pre, post='not _',
                      expect='cex', timeout=60, group='twin'))
    return obs


COVERED = ('Str', 'BinStr', 'Ident', 'KeywordR', 'KeywordU', 'Parameter')


def validate_model(V, tier):
    """The reference lexer model is not trusted: compare it with the real
    lexer (compiled from /repo's .rs files in this run) on a corpus, and run
    every harness natively on the small adversarial corpus (each native run
    cross-checks model and real lexer on the text the real quoting function
    produced).  Returns (texts compared, disagreements)."""
    import itertools
    from vlib.oracle import lexer, eql_model
    from vlib.harness import C18_quote as H
    L = lexer.shared()
    rnd = random.Random(driver.seed())
    alpha = [c for c in H.ADV]
    words = ['']
    for k in (1, 2):
        words += [''.join(t) for t in itertools.product(alpha, repeat=k)]
    if tier != 'quick':
        words += [''.join(rnd.choice(alpha) for _ in range(3)) for _ in range(20000)]
    pool = [chr(c) for c in list(range(1, 0x250)) + [0x2028, 0x202a, 0x2066, 0xfeff, 0x10348, 0x1f600, 0x3000, 0x0345, 0x2161, 0xb2]]
    words += [''.join(rnd.choice(pool) for _ in range(rnd.randint(1, 4))) for _ in range(3000)]
    n = bad = 0
    samples = []
    wraps = [lambda t: t, lambda t: "'" + t + "'", lambda t: '"' + t + '"', lambda t: "b'" + t + "'",
             lambda t: '$$' + t + '$$', lambda t: '`' + t + '`', lambda t: '$' + t, lambda t: "r'" + t + "'",
             lambda t: '$a$' + t + '$a$', lambda t: '$`' + t + '`']
    for w in words:
        # comments are outside the model
        bare_ok = '#' not in w
        for k, wrap in enumerate(wraps):
            if k in (0, 6) and not bare_ok:
                continue
            t = wrap(w)
            m = eql_model.lex_one(t)
            r = L.single(t)
            if r is not None and r[0] not in COVERED:
                r = None
            n += 1
            if m != r:
                bad += 1
                if len(samples) < 5:
                    samples.append({'text': t, 'model': repr(m), 'real_lexer': repr(L.lex(t))})
    # native harness runs on the small corpus
    native = viol = 0
    fns = [(H.eql_quote_literal, lambda w: (w,)), (H.eql_dollar_quote, lambda w: (w,)),
           (H.eql_quote_ident, lambda w: (w, False, False)), (H.eql_quote_ident, lambda w: (w, True, False)),
           (H.eql_quote_ident, lambda w: (w, False, True)), (H.eql_param, lambda w: (w,)),
           (H.eql_codegen_str, lambda w: (w, True)), (H.eql_codegen_str, lambda w: (w, False)),
           (H.pg_quote_literal, lambda w: (w,)), (H.pg_quote_ident, lambda w: (w, False, False)),
           (H.pg_quote_ident, lambda w: (w, False, True))]
    for w in words[:1 + len(alpha) + len(alpha) ** 2]:
        for fn, mk in fns:
            native += 1
            try:
                ok = fn(*mk(w))
            except H.OracleDisagreement as e:
                bad += 1
                if len(samples) < 8:
                    samples.append({'harness': fn.__name__, 'input': w, 'disagreement': str(e)[:300]})
                continue
            if not ok:
                viol += 1
                V.add_generic('validation-corpus.%s' % fn.__name__, False, group='validation corpus', func=fn.__name__,
                              detail={'input': w, 'info': dict(H.LAST_INFO)},
                              violation={'harness': fn.__name__, 'args': repr(mk(w)), 'info': dict(H.LAST_INFO),
                                         'found_by': 'native run of the harness on the validation corpus (not by the solver)',
                                         'replay_cmd': None})
                if viol > 5:
                    break
    return n, bad, native, samples


def run(tier, only=''):
    V = driver.Verdicts('C18', tier)
    from vlib.oracle import lexer, tables
    scratch = tempfile.mkdtemp(prefix='verif_c18_')
    try:
        t0 = time.time()
        try:
            lexer.build(scratch)
        except lexer.BuildError as e:
            driver.log('cannot build the real lexer from /repo: %s' % e)
            V.inconclusive.append('lexer oracle build failed: %s' % str(e)[-500:])
            return V.finish(level='other', explanation='oracle build failed', bounds={}, stubs=[], trusted_base=[],
                            assumptions=[], subjects=[])
        tables.dump(os.path.join(scratch, 'tables.json'))
        driver.log('C18: real lexer built from /repo in %.1fs' % (time.time() - t0))
        t1 = time.time()
        n_texts, n_bad, n_native, vsamples = validate_model(V, tier)
        driver.log('C18: reference lexer model vs real lexer: %d texts, %d disagreements; %d native harness runs (%.1fs)'
                   % (n_texts, n_bad, n_native, time.time() - t1))
        if n_bad:
            V.inconclusive.append('reference lexer model disagrees with the real lexer compiled from /repo on %d texts, '
                                  'e.g. %r' % (n_bad, vsamples[:2]))
        obs = [o for o in obligations(tier) if only in o.id]
        driver.log(f'C18 {tier}: {len(obs)} CrossHair obligations')
        for ob, r in zip(obs, xhair.run_all(obs, log=driver.log)):
            V.add_xhair(ob, r)
    finally:
        import shutil
        shutil.rmtree(scratch, ignore_errors=True)
    return V.finish(
        level='other',
        explanation=('Bounded symbolic verification (CrossHair/z3 string theory) of every quoting function: the string or '
                     'bytes value to be quoted is symbolic, the real quoting function from /repo produces the text, and a '
                     'reference lexer (EdgeQL rules transcribed from tokenizer.rs/validation.rs/helpers, PostgreSQL rules from '
                     'the documentation) reads it back; the obligation is "exactly one token of the expected kind with the '
                     'original value" for every value the form can express. The EdgeQL reference lexer is validated in the '
                     'same run against the real lexer compiled from /repo; every solver counterexample is replayed natively '
                     'against the real function and the real lexer before it is reported.'),
        bounds={'tier': tier,
                'lengths': 'per obligation (see samples[].pre): full Unicode |s| <= 1..3 (<= 5..6 for the PostgreSQL literal), '
                           'ASCII |s| = 2 (3 in thorough), adversarial alphabet of 39 code points |s| = 3..4 (..6), '
                           'bytes |b| <= 1 plus |b| = 2 for %s first-byte ranges' % ('3' if tier == 'quick' else 'all 16'),
                'adversarial alphabet': "' \" \\ $ ` ( ) : @ _ a b x u 0 9 LF CR TAB BS FF U+1F U+7F U+85 U+AD U+B2 U+2161 U+202A "
                                        "U+2066 U+C9 U+E9 SPACE n i f I K U+345 U+3000"},
        stubs=['none in the subject; CrossHair extension: `x in frozenset` with symbolic x is a linear scan of equality tests '
               '(as CrossHair already does for set/dict) instead of hashing x'],
        trusted_base=['PostgreSQL lexical model vlib/oracle/pg_model.py (scan.l rules, PG 17 reserved / type-func-name key words) - '
                      'PostgreSQL itself is not in the sandbox',
                      'CrossHair str/bytes/re models and Unicode tables (can hide a path, cannot cause an alarm: every '
                      'counterexample is replayed on CPython and the real Rust lexer)',
                      'Rust char::is_alphabetic / is_alphanumeric / is_whitespace tables are dumped from the compiled lexer '
                      'binary on every run and injected as SMT predicates'],
        assumptions=['EdgeQL domain of each form is decided by the lexer rules themselves (NUL and lone surrogates are not '
                     'expressible; bidi controls only in escaped strings; names cannot be empty, start with @ or $, contain '
                     '"::", or be surrounded by double underscores)',
                     'PostgreSQL: standard_conforming_strings=on, multibyte server encoding, identifiers <= 63 bytes'],
        outside=['longer strings', 'quote_bytea_literal / quote_e_literal (binascii / re.split: realised at the C boundary)',
                 'dbops.encode_value dispatch (typeutils.is_container loops on a symbolic str under CrossHair)',
                 'grammar-level acceptability of partial-reserved key words'],
        extra={'model_validation': {'texts_compared_with_real_lexer': n_texts, 'disagreements': n_bad,
                                    'native_harness_runs': n_native, 'samples': vsamples}},
    )
