"""C09 - compiler session state follows transaction / savepoint semantics."""
import os

from vlib import driver, xhair
from vlib.xhair import Ob

M = 'vlib.harness.C09_tx'

API_PARAMS = ('t0: int, k: int, o0: int, n0: int, o1: int, n1: int, o2: int, n2: int, '
              'o3: int, n3: int, o4: int, n4: int')
SCRIPT_PARAMS = ('t0: int, d: int, pn0: int, pc0: int, pn1: int, pc1: int, pn2: int, pc2: int, k: int, '
                 'o0: int, n0: int, f0: bool, o1: int, n1: int, f1: bool, '
                 'o2: int, n2: int, f2: bool, o3: int, n3: int, f3: bool')


def _api_ob(k, first, names, T):
    """api_sequence with the first operation kind fixed and only the live
    positions symbolic (dead parameters are passed as constants, not pinned by
    preconditions: every pinned parameter costs failing-precondition paths)."""
    params, pre, args = [], [], ['1000', str(k)]
    for i in range(5):
        if i >= k:
            args += ['0', '0']
            continue
        if i == 0:
            args.append(str(first))
        else:
            params.append(f'o{i}: int')
            pre.append(f'0 <= o{i} <= 8')
            args.append(f'o{i}')
        params.append(f'n{i}: int')
        pre.append(f'0 <= n{i} <= {names - 1}')
        args.append(f'n{i}')
    return Ob(id=f'api.k{k}.first{first}', module=M, func='api_sequence', params=', '.join(params),
              pre=pre, args=', '.join(args), group='A.state-machine', timeout=T,
              bound=f'{k} API operation(s) from a fresh connection state, first op kind {first}, '
                    f'{names} savepoint names, 9 operation kinds')


def _script_ob(d, k, first, names, T, func='script', oid=None, fixed=None, finding=None):
    """fixed: {param: constant} overrides (used for the known-finding instance)."""
    fixed = fixed or {}
    params, pre, args = [], [], ['1000', str(d)]

    def sym(name, typ, lo=None, hi=None):
        if name in fixed:
            args.append(str(fixed[name]))
            return
        params.append(f'{name}: {typ}')
        if lo is not None:
            pre.append(f'{lo} <= {name} <= {hi}')
        args.append(name)

    for i in range(3):
        if i < d:
            sym(f'pn{i}', 'int', 0, names - 1)
            sym(f'pc{i}', 'int', 0, 3)
        else:
            args += ['0', '0']
    args.append(str(k))
    for i in range(4):
        if i < k:
            if i == 0 and first is not None:
                args.append(str(first))
            else:
                sym(f'o{i}', 'int', 0, 8)
            sym(f'n{i}', 'int', 0, names - 1)
            sym(f'f{i}', 'bool')
        else:
            args += ['0', '0', 'False']
    return Ob(id=oid or f'script.d{d}.k{k}.first{first}', module=M, func=func, params=', '.join(params),
              pre=pre or ['True'], args=', '.join(args), group=('F11' if finding else 'B.compile+protocol+faults'),
              timeout=T, finding=finding,
              bound=f'START; recipe prefix of {d} savepoint(s) with optional state change before each; '
                    f'{k} free statement(s) (first kind {first}) with backend-failure flags; {names} names')


def obligations(tier):
    quick = tier == 'quick'
    T = float(os.environ.get('VERIF_XH_TIMEOUT') or (300 if quick else 1800))
    names = 3
    obs = []
    # Part A: state classes, sequences of API calls from a fresh state
    kmax = 4 if quick else 5
    for k in range(1, kmax + 1):
        for first in range(0, 6):
            if k >= 4 and first != 0:
                continue        # longer histories: START first (anything else is rejected or a no-op on a fresh state)
            if k <= 3:
                obs.append(_api_ob(k, first, names, T))
            else:
                for second in range(9):
                    ob = _api_ob(k, first, names, T)
                    ob.id += f'.second{second}'
                    ob.pre = [p for p in ob.pre if not p.startswith('0 <= o1 ')]
                    ob.params = ', '.join(p for p in ob.params.split(', ') if p != 'o1: int')
                    parts = ob.args.split(', ')
                    parts[4] = str(second)
                    ob.args = ', '.join(parts)
                    ob.bound += f', second op kind {second}'
                    obs.append(ob)
    # Part B: compile layer + server protocol + faults
    if quick:
        combos = [(0, 1), (0, 2), (0, 3), (1, 1), (1, 2), (2, 1)]
    else:
        # sized so that one obligation stays below ~25 000 histories (20^(k-1) * 16^d with the first statement fixed)
        combos = [(0, 1), (0, 2), (0, 3), (0, 4), (1, 1), (1, 2), (1, 3), (2, 1), (2, 2), (3, 1)]
    for d, k in combos:
        for first in range(0, 9):
            obs.append(_script_ob(d, k, first, names, T))
    # Part B': positioned histories (the server has been rolled back to a savepoint, then to a later one)
    for first in range(0, 9):
        np_ = 2 if quick else names
        obs.append(Ob(id=f'positioned.k2.first{first}', module=M, func='script_positioned',
                      params='pn0: int, pc0: int, pn1: int, pc1: int, k: int, n0: int, f0: bool, o1: int, n1: int, f1: bool',
                      pre=[f'0 <= pn0 < {np_} and 0 <= pn1 < {np_}', ('pc0 == 0 or pc0 == 3' if quick else '0 <= pc0 <= 3'),
                           '1 <= pc1 <= 3', '1 <= k <= 2', f'0 <= n0 < {names} and 0 <= n1 < {names}', '0 <= o1 <= 8'],
                      args=f'1000, pn0, pc0, pn1, pc1, k, {first}, n0, f0, o1, n1, f1', timeout=T,
                      group='B.positioned',
                      bound='START; [change]; SAVEPOINT a; ROLLBACK TO a; change; SAVEPOINT b; ROLLBACK TO b; 1-2 free '
                            f'statements (first kind {first}) with backend-failure flags'))
    # known finding F11: un-narrowed instance restricted to witness histories
    # SAVEPOINT a; [change]; SAVEPOINT a; RELEASE a; ROLLBACK TO a; <any statement>
    obs.append(_script_ob(2, 3, 4, names, T, func='script_raw', oid='script.F11', finding='F11',
                          fixed={'pn0': 0, 'pn1': 0, 'n0': 0, 'f0': False, 'o1': 5, 'n1': 0, 'f1': False}))
    # reachability twins
    obs.append(Ob(id='twin.api', module=M, func='api_sequence', params='n1: int', post='not _', expect='cex',
                  pre=['0 <= n1 <= 2'], args='1000, 3, 0, 0, 3, n1, 5, n1, 0, 0, 0, 0', timeout=60, group='twin'))
    obs.append(Ob(id='twin.script', module=M, func='script', params='n0: int', post='not _', expect='cex',
                  pre=['0 <= n0 <= 2'],
                  args='1000, 1, n0, 3, 0, 0, 0, 0, 2, 8, 0, True, 5, n0, False, 0, 0, False, 0, 0, False',
                  timeout=60, group='twin'))
    return obs


def run(tier, only=''):
    V = driver.Verdicts('C09', tier)
    obs = [o for o in obligations(tier) if only in o.id]
    driver.log(f'C09 {tier}: {len(obs)} CrossHair obligations')
    for ob, r in zip(obs, xhair.run_all(obs, log=driver.log)):
        V.add_xhair(ob, r)
    return V.finish(
        level='model_checking',
        explanation=('Bounded model checking of the real transaction-state code by symbolic execution (CrossHair/z3): '
                     'operation kinds, savepoint names and fault placements are symbolic; after every '
                     'operation the abstraction of the real state (_current, _state0, _savepoints) is compared with a '
                     'PostgreSQL-style transaction model, and every statement must be compiled against the state the '
                     'model exposes at that point.'),
        bounds={'part A': 'sequences of <= %d API operations from a fresh state' % (4 if tier == 'quick' else 5),
                'part B': ('START + (recipe prefix, free statements) in {(0,1),(0,2),(0,3),(1,1),(1,2),(2,1)}' if tier == 'quick' else
                           'START + (recipe prefix d, free statements k) in {(0,1..4),(1,1..3),(2,1..2),(3,1)}') +
                          ' (optional alias/config/DDL change before each prefix savepoint; backend-failure flags on free statements)',
                'savepoint names': 3, 'id counter start': 1000},
        stubs=['dbstate.time (monotonic_ns returns the harness-chosen symbolic counter start)',
               'DDL and CONFIGURE SESSION statements are represented by the state-mutating call their compilation '
               'ends in (Transaction.update_schema / update_session_config); transaction and alias statements run '
               'the real _compile_dispatch_ql/_make_query_unit on hand-built qlast nodes'],
        trusted_base=['Model: 60-line PostgreSQL transaction/savepoint model in the harness',
                      'ServerView: transcription of the transaction bookkeeping of dbview.pyx / execute.pyx / '
                      'binary.pyx (Cython, cannot run here)', 'CrossHair, z3'],
        assumptions=['only DDL / CONFIGURE statements can fail in the backend after compiling',
                     'outside a block every statement is compiled against a fresh CompilerConnectionState '
                     '(as Compiler.compile does), so histories start at START TRANSACTION'],
        outside=['migration blocks', 'SQL-protocol transactions', 'pickle round trip of the state between worker calls',
                 'longer histories'],
        rule=('states = explored paths that ran to the final comparison (distinct histories up to the solver\'s '
              'case split); transitions = operations applied and compared with the model over all paths'),
    )
