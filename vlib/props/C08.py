"""C08 - declared capabilities (statement-kind dispatch and aggregation)."""
import os

from vlib import driver, xhair
from vlib.xhair import Ob

M = 'vlib.harness.C08_caps'


def obligations(tier):
    quick = tier == 'quick'
    T = float(os.environ.get('VERIF_XH_TIMEOUT') or (240 if quick else 900))
    obs = []
    for kind in range(8):
        obs.append(Ob(id=f'dispatch.kind{kind}', module=M, func='dispatch_caps',
                      params='sub: int, has_dml: bool, simple: bool, txa: int, mig_kind: int, in_tx: bool',
                      args=f'{kind}, sub, has_dml, simple, txa, mig_kind, in_tx',
                      pre=['0 <= sub <= 7 and 0 <= txa <= 3 and 0 <= mig_kind <= 2'], timeout=T, group='dispatch',
                      bound=f'statement kind {kind} (0 DDL, 1 migration, 2 transaction, 3 session, 4 CONFIGURE, 5 EXPLAIN, '
                            '6 ADMINISTER, 7 query) x 8 sub-forms x has_dml x Query/SimpleQuery x migration tx action x in/out of a block'))
    bools = ', '.join(f'{p}{i}: bool' for p in 'abc' for i in range(5))
    names = [f'{p}{i}' for p in 'abc' for i in range(5)]
    for n in (1, 2):
        live = names[:5 * n]
        obs.append(Ob(id=f'group_or.n{n}', module=M, func='group_or', params=', '.join(f'{x}: bool' for x in live),
                      args=', '.join(live + ['False'] * (15 - 5 * n)) + f', {n}', pre=['True'], timeout=T,
                      group='aggregation', bound=f'{n} unit(s), each any subset of the 5 capability flags'))
    if not quick:
        for k in range(32):
            first = [str(bool(k >> i & 1)) for i in range(5)]
            live = names[5:]
            obs.append(Ob(id=f'group_or.n3.first{k}', module=M, func='group_or', params=', '.join(f'{x}: bool' for x in live),
                          args=', '.join(first + live) + ', 3', pre=['True'], timeout=T, group='aggregation',
                          bound=f'3 units, first unit flags {k:05b}, the others any subset'))
    obs.append(Ob(id='refusal_names_missing', module=M, func='refusal_names_missing',
                  params=', '.join(f'{p}{i}: bool' for p in 'ab' for i in range(5)), pre=['True'], timeout=T,
                  group='refusal', bound='used x allowed: any two subsets of the 5 flags'))
    obs.append(Ob(id='twin.dispatch', module=M, func='dispatch_caps', params='sub: int', post='not _', expect='cex',
                  args='7, sub, True, False, 0, 0, False', pre=['0 <= sub <= 2'], timeout=60, group='twin'))
    return obs


def run(tier, only=''):
    V = driver.Verdicts('C08', tier)
    obs = [o for o in obligations(tier) if only in o.id]
    driver.log(f'C08 {tier}: {len(obs)} CrossHair obligations')
    for ob, r in zip(obs, xhair.run_all(obs, log=driver.log)):
        V.add_xhair(ob, r)
    return V.finish(
        level='other',
        explanation=('Bounded symbolic verification (CrossHair/z3) of the capability bookkeeping that is reachable without '
                     'the parser: for every top-level statement kind (hand-built qlast node) and every outcome of the '
                     'sub-compilers (has_dml, transaction action of a migration command, configuration scope) the capability '
                     'set returned by _compile_dispatch_ql, stored in the QueryUnit and aggregated by QueryUnitGroup.append '
                     'contains the capability the statement needs; a group carries exactly the union of its units; a refusal '
                     'names a capability that is used and not allowed.'),
        bounds={'statement kinds': 8, 'sub-forms': 8, 'units per group': '<= 3', 'capability flags': 5},
        stubs=['_compile_ql_query, _compile_ql_explain, _compile_ql_administer, _compile_ql_config_op, '
               'ddl.compile_and_apply_ddl_stmt, ddl.compile_dispatch_ql_migration are stand-ins returning real dbstate result '
               'objects with harness-chosen has_dml / tx_action / scope (their real bodies need the std schema); transaction '
               'and session statements run the real code'],
        trusted_base=['expected(): the capability each statement kind needs (20 lines, from the property statement)', 'CrossHair, z3'],
        assumptions=['has_dml reported by the query compiler is correct (the first half of C08: that it is set for every nesting '
                     'context needs real compilation and is NOT decided here)'],
        outside=['has_dml recording sites in edgeql/compiler (stmt.py, func.py)', 'dbview.check_capabilities (Cython)',
                 'SQL-protocol statements'],
    )
