"""C08 - declared capabilities (statement-kind dispatch and aggregation)."""
import os

from vlib import driver, xhair
from vlib.xhair import Ob

M = 'vlib.harness.C08_caps'


def obligations(tier):
    quick = tier == 'quick'
    T = float(os.environ.get('VERIF_XH_TIMEOUT') or (240 if quick else 900))
    obs = []
    for kind in range(8):
        obs.append(Ob(id=f'dispatch.kind{kind}', module=M, func='dispatch_caps',
                      params='sub: int, has_dml: bool, simple: bool, txa: int, mig_kind: int, in_tx: bool',
                      args=f'{kind}, sub, has_dml, simple, txa, mig_kind, in_tx',
                      pre=['0 <= sub <= 7 and 0 <= txa <= 3 and 0 <= mig_kind <= 2'], timeout=T, group='dispatch',
                      bound=f'statement kind {kind} (0 DDL, 1 migration, 2 transaction, 3 session, 4 CONFIGURE, 5 EXPLAIN, '
                            '6 ADMINISTER, 7 query) x 8 sub-forms x has_dml x Query/SimpleQuery x migration tx action x in/out of a block'))
    bools = ', '.join(f'{p}{i}: bool' for p in 'abc' for i in range(5))
    names = [f'{p}{i}' for p in 'abc' for i in range(5)]
    for n in (1, 2):
        live = names[:5 * n]
        obs.append(Ob(id=f'group_or.n{n}', module=M, func='group_or', params=', '.join(f'{x}: bool' for x in live),
                      args=', '.join(live + ['False'] * (15 - 5 * n)) + f', {n}', pre=['True'], timeout=T,
                      group='aggregation', bound=f'{n} unit(s), each any subset of the 5 capability flags'))
    if not quick:
        for k in range(32):
            first = [str(bool(k >> i & 1)) for i in range(5)]
            live = names[5:]
            obs.append(Ob(id=f'group_or.n3.first{k}', module=M, func='group_or', params=', '.join(f'{x}: bool' for x in live),
                          args=', '.join(first + live) + ', 3', pre=['True'], timeout=T, group='aggregation',
                          bound=f'3 units, first unit flags {k:05b}, the others any subset'))
    obs.append(Ob(id='refusal_names_missing', module=M, func='refusal_names_missing',
                  params=', '.join(f'{p}{i}: bool' for p in 'ab' for i in range(5)), pre=['True'], timeout=T,
                  group='refusal', bound='used x allowed: any two subsets of the 5 flags'))
    # first half of C08: has_dml through the REAL query path (vlib/harness/C08_dml.py), plain and under ANALYZE
    M2 = 'vlib.harness.C08_dml'
    T2 = float(os.environ.get('VERIF_XH_TIMEOUT') or (400 if quick else 1800))
    obs.append(Ob(id='real.nested-dml', module=M2, func='capabilities_ok', params='a: int, b: int, wb: int, wrap: int',
                  args='4, a, 0, b, wb, wrap', pre=['0 <= a < 3 and 0 <= b < 8 and 0 <= wb < 14 and 0 <= wrap < 4'], timeout=T2,
                  group='real query path', bound='8 DML statements x 14 nesting contexts (sub-query, tuple, WITH used / unused, FOR body, '
                  'count(), EXISTS, shape element, IF/ELSE branches, set literal, FILTER, INSERT value, ??, shape subject) x 3 '
                  'surrounding atoms x {plain, ANALYZE, ANALYZE execute true / false}'))
    for wrap in ((0, 2) if quick else (0, 1, 2, 3)):
        obs.append(Ob(id=f'real.dml-forms.wrap{wrap}', module=M2, func='capabilities_ok', params='a: int, b: int, wb: int',
                      args=f'3, a, 0, b, wb, {wrap}', pre=['0 <= a < 30 and (b == 0 or b == 3 or b == 15) and 0 <= wb < 8'] if quick
                      else ['0 <= a < 30 and 0 <= b < 30 and 0 <= wb < 8'], timeout=T2, group='real query path',
                      bound='8 INSERT / UPDATE / DELETE / FOR-INSERT forms built around every atom'))
    obs.append(Ob(id='real.read-only', module=M2, func='capabilities_ok', params='a: int, wa: int, wrap: int',
                  args='0, a, wa, 0, 0, wrap', pre=['0 <= a < 30 and 0 <= wa < 18 and 0 <= wrap < 4'], timeout=T2, group='real query path',
                  bound='every wrapped atom (read-only): no MODIFICATIONS reported, plain and under ANALYZE'))
    obs.append(Ob(id='twin.real-dml', module=M2, func='twin_dml', params='a: int', post='not _', expect='cex',
                  pre=['0 <= a < 14'], timeout=120, group='twin'))
    obs.append(Ob(id='twin.dispatch', module=M, func='dispatch_caps', params='sub: int', post='not _', expect='cex',
                  args='7, sub, True, False, 0, 0, False', pre=['0 <= sub <= 2'], timeout=60, group='twin'))
    return obs


def run(tier, only=''):
    V = driver.Verdicts('C08', tier)
    obs = [o for o in obligations(tier) if only in o.id]
    driver.log(f'C08 {tier}: {len(obs)} CrossHair obligations')
    for ob, r in zip(obs, xhair.run_all(obs, log=driver.log)):
        V.add_xhair(ob, r)
    return V.finish(
        level='other',
        explanation=('Bounded symbolic verification (CrossHair/z3) of the capability bookkeeping that is reachable without '
                     'the parser: for every top-level statement kind (hand-built qlast node) and every outcome of the '
                     'sub-compilers (has_dml, transaction action of a migration command, configuration scope) the capability '
                     'set returned by _compile_dispatch_ql, stored in the QueryUnit and aggregated by QueryUnitGroup.append '
                     'contains the capability the statement needs; a group carries exactly the union of its units; a refusal '
                     'names a capability that is used and not allowed. Second part (group "real query path"): queries of a '
                     'compositional family (hand-built qlast; DML statements, DML in 14 nesting contexts, read-only queries; plain and '
                     'wrapped in ANALYZE with / without execute) go through the REAL _compile_dispatch_ql -> _compile_ql_query / '
                     '_compile_ql_explain -> EdgeQL compiler -> SQL compiler -> descriptors: a statement reports MODIFICATIONS and '
                     'has_dml exactly when it contains a data-modifying sub-statement anywhere.'),
        bounds={'statement kinds': 8, 'sub-forms': 8, 'units per group': '<= 3', 'capability flags': 5},
        stubs=['(dispatch part only) _compile_ql_query, _compile_ql_explain, _compile_ql_administer, _compile_ql_config_op, '
               'ddl.compile_and_apply_ddl_stmt, ddl.compile_dispatch_ql_migration are stand-ins returning real dbstate result '
               'objects with harness-chosen has_dml / tx_action / scope (their real bodies need the std schema); transaction '
               'and session statements run the real code'],
        trusted_base=['expected(): the capability each statement kind needs (20 lines, from the property statement)', 'CrossHair, z3'],
        assumptions=['real query path: std is a transcribed fragment (see C13); queries are qlast trees, not text'],
        outside=['DML inside functions (volatility Modifying), globals, triggers, rewrites, access-policy expressions',
                 'dbview.check_capabilities (Cython)',
                 'SQL-protocol statements'],
    )
