"""C17 - compiler workers compile against the caller's current state."""
import os

from vlib import driver, xhair
from vlib.xhair import Ob

M = 'vlib.harness.C17_cpool'
# history(pre_b, w1, d1, p1, k1, q1, j1, f1, g1, w2, d2, p2, k2, f2, g2, w3, d3)


def _hist(oid, sym, fixed, bound, T, group):
    """sym: {name: (type, lo, hi)}; fixed: {name: expression}."""
    order = ['pre_b', 'w1', 'd1', 'p1', 'k1', 'q1', 'j1', 'f1', 'g1', 'w2', 'd2', 'p2', 'k2', 'f2', 'g2', 'w3', 'd3']
    params, pre, args = [], [], []
    for n in order:
        if n in sym:
            typ, lo, hi = sym[n]
            params.append(f'{n}: {typ}')
            if typ == 'int':
                pre.append(f'{lo} <= {n} <= {hi}')
            args.append(n)
        else:
            args.append(str(fixed[n]))
    return Ob(id=oid, module=M, func='history', params=', '.join(params), pre=pre or ['True'], args=', '.join(args),
              timeout=T, group=group, bound=bound)


def obligations(tier):
    quick = tier == 'quick'
    T = float(os.environ.get('VERIF_XH_TIMEOUT') or (300 if quick else 1500))
    obs = []
    B, I = 'bool', 'int'
    for f1 in range(5):
        # H1: one changed part, any fault, then two fault-free requests on another (worker, database)
        sym = {'pre_b': (B, 0, 0), 'w1': (I, 0, 1), 'd1': (I, 0, 1), 'p1': (I, 0, 5), 'k1': (I, 1, 3),
               'w2': (I, 0, 1), 'd2': (I, 0, 1)}
        fixed = {'q1': 5, 'j1': 1, 'f1': f1, 'g1': 0, 'p2': 5, 'k2': 1, 'f2': 0, 'g2': 0, 'w3': 'w1', 'd3': 'd1'}
        if f1 == 2:
            sym['g1'] = (I, 0, 4)
            del fixed['g1']
        obs.append(_hist(f'H1.fault{f1}', sym, fixed,
                         'recipe (worker0/db a synced, optionally worker1/db b synced); request 1: any worker, '
                         f'any db, one part changed (new / empty / reverted), fault kind {f1}; then fault-free requests on any '
                         '(worker, db) and on the first one again', T, 'one change + fault'))
    # H2: two parts changed in one request, no fault
    for p1 in range(5):
        sym = {'pre_b': (B, 0, 0), 'w1': (I, 0, 1), 'd1': (I, 0, 1), 'k1': (I, 1, 2), 'q1': (I, 0, 4), 'j1': (I, 1, 2),
               'w2': (I, 0, 1), 'd2': (I, 0, 1)}
        fixed = {'p1': p1, 'f1': 0, 'g1': 0, 'p2': 5, 'k2': 1, 'f2': 0, 'g2': 0, 'w3': 'w1', 'd3': 'd1'}
        obs.append(_hist(f'H2.two-parts.p{p1}', sym, fixed,
                         f'part {p1} and any other part changed (new / empty) in one request; probes as in H1', T, 'two changes'))
    # H3: change with a fault, then the caller goes back to the previous object (out-of-order requests)
    for f1 in (0, 1, 2):
        sym = {'pre_b': (B, 0, 0), 'w1': (I, 0, 1), 'd1': (I, 0, 1), 'p1': (I, 0, 4), 'k1': (I, 1, 2), 'w2': (I, 0, 1)}
        fixed = {'q1': 5, 'j1': 1, 'f1': f1, 'g1': 0, 'd2': 'd1', 'p2': 'p1', 'k2': 3, 'f2': 0, 'g2': 0, 'w3': 'w1', 'd3': 'd1'}
        if f1 == 2:
            sym['g1'] = (I, 0, 4)
            del fixed['g1']
        obs.append(_hist(f'H3.revert.fault{f1}', sym, fixed,
                         f'request 1 changes a part (fault kind {f1}); request 2 carries the previous object again', T,
                         'change, fault, revert'))
    # H5: two changing requests, the first with any fault, then a probe
    for f1 in range(5):
        sym = {'w1': (I, 0, 1), 'd1': (I, 0, 1), 'p1': (I, 0, 4), 'k1': (I, 1, 3),
               'w2': (I, 0, 1), 'd2': (I, 0, 1), 'p2': (I, 0, 4), 'k2': (I, 1, 3)}
        fixed = {'pre_b': True, 'q1': 5, 'j1': 1, 'f1': f1, 'g1': 'p1', 'f2': 0, 'g2': 0, 'w3': 'w2', 'd3': 'd2'}
        obs.append(_hist(f'H5.two-requests.fault{f1}', sym, fixed,
                         f'both workers synced; request 1 changes one part (fault kind {f1}, sync fault on the changed part); '
                         'request 2 changes one part on any (worker, db); probe', T, 'two changing requests'))
    if not quick:
        # H4: two faulty requests in a row
        for f1 in range(5):
            for f2 in range(1, 5):
                # fault kind 2 (failed transfer of one part) is split by the part that fails (parts 0 and 4)
                g1s = (0, 4) if f1 == 2 else (0,)
                g2s = (0, 4) if f2 == 2 else (0,)
                for g1 in g1s:
                    for g2 in g2s:
                        sym = {'pre_b': (B, 0, 0), 'w1': (I, 0, 1), 'd1': (I, 0, 1), 'p1': (I, 0, 5), 'k1': (I, 1, 3),
                               'w2': (I, 0, 1), 'd2': (I, 0, 1), 'p2': (I, 0, 5), 'k2': (I, 1, 3), 'w3': (I, 0, 1)}
                        fixed = {'q1': 5, 'j1': 1, 'f1': f1, 'g1': g1, 'f2': f2, 'g2': g2, 'd3': 'd2'}
                        tag = f'H4.faults{f1}{f2}' + (f'.g{g1}{g2}' if (f1 == 2 or f2 == 2) else '')
                        obs.append(_hist(tag, sym, fixed, f'two requests with one change each, fault kinds {f1},{f2}'
                                         + (f' (failing parts {g1},{g2})' if (f1 == 2 or f2 == 2) else '') + '; probe', T,
                                         'two faulty requests'))
    obs.append(Ob(id='in_tx', module=M, func='in_tx_history', params='w0: int, w1: int, w2: int, fail1: bool, stale: bool',
                  pre=['0 <= w0 <= 1 and 0 <= w1 <= 1 and 0 <= w2 <= 1'], timeout=T, group='compile_in_tx',
                  bound='compile on w0; compile_in_tx on w1 (may fail in the compiler); compile_in_tx on w2 with the latest or an older state'))
    for wa in (0, 1):
        for wb in (0, 1):
            obs.append(Ob(id=f'in_tx_two.wa{wa}.wb{wb}', module=M, func='in_tx_two_history',
                          params='t1: int, w1: int, f1: bool, t2: int, w2: int, f2: bool, t3: int, w3: int, f3: bool',
                          args=f'{wa}, {wb}, t1, w1, f1, t2, w2, f2, t3, w3, f3',
                          pre=['0 <= t1 <= 1 and 0 <= w1 <= 1 and 0 <= t2 <= 1 and 0 <= w2 <= 1 and 0 <= t3 <= 1 and 0 <= w3 <= 1'],
                          timeout=T, group='compile_in_tx',
                          bound=f'transaction A (db a) starts on worker {wa}, B (db b) on worker {wb}; three compile_in_tx calls, '
                                'each for A or B on either worker, each may fail in the compiler'))
    obs.append(Ob(id='twin.history', module=M, func='history', params='w1: int, p1: int', post='not _', expect='cex',
                  pre=['0 <= w1 <= 1 and 0 <= p1 <= 4'], args='True, w1, 0, p1, 2, 5, 1, 2, 4, 0, 0, p1, 3, 0, 0, w1, 0',
                  timeout=60, group='twin'))
    return obs


def run(tier, only=''):
    V = driver.Verdicts('C17', tier)
    obs = [o for o in obligations(tier) if only in o.id]
    driver.log(f'C17 {tier}: {len(obs)} CrossHair obligations')
    for ob, r in zip(obs, xhair.run_all(obs, log=driver.log)):
        V.add_xhair(ob, r)
    return V.finish(
        level='model_checking',
        explanation=('Bounded model checking of the real pool / worker state-synchronisation code by symbolic execution '
                     '(CrossHair/z3): which worker, which database, which of the five state parts changed and how (new object, '
                     'new *empty* map, back to the previous object) and which fault hits the request (compiler error, failed '
                     'unpickling of a chosen part, lost request, lost response) are symbolic choices. After every request: a '
                     'request that reaches the compiler was compiled against exactly the five values supplied with it, and '
                     'whatever the server records for a worker is what that worker process holds.'),
        bounds={'workers': 2, 'databases': 2, 'requests': '2 recipe + 2 symbolic + 1 probe' if tier == 'quick' else '2 recipe + 2 symbolic (both may fail) + 1 probe',
                'objects per part': 4, 'parts': 'user schema, reflection cache, global schema, database config, instance config'},
        stubs=['worker processes are two private copies of the worker module, driven in-process the way worker_proc.worker() '
               'does; COMPILER is a recorder', 'pickle.loads inside a worker fails on the blob chosen by the harness '
               '(failed state transfer); every other transfer uses real pickle',
               'after a lost request/response the connection counts as closed (amsg fails a request only then)'],
        trusted_base=['the recorder and consistency predicate in the harness', 'CrossHair, z3'],
        assumptions=['_acquire_worker may return either worker (superset of every real pool policy)'],
        outside=['MultiTenantPool / multitenant_worker', 'real process boundaries', 'more than two symbolic requests'],
        rule='states = histories that ran to the final probe; transitions = requests issued and checked over all paths',
    )
