"""C05 - backend tables and columns track the schema through every migration."""
import os

from vlib import driver, xhair
from vlib.xhair import Ob
from vlib.props import C04

M = 'vlib.harness.C05_pg'


def _sizes():
    from vlib.harness import C05_pg as H
    return H.NMENU, len(H.RECIPES)


def _accepted():
    from vlib import shims
    shims.install()
    from vlib.harness import C05_pg as H
    return {r: len(H.accepted_first(r)) for r in H.RECIPES}


def obligations(tier):
    quick = tier == 'quick'
    T = float(os.environ.get('VERIF_XH_TIMEOUT') or (400 if quick else 1800))
    nmenu, nrec = _sizes()
    nacc = _accepted()
    obs = []
    for r in range(nrec):
        obs.append(Ob(id=f'history.recipe{r}.k1', module=M, func='history', params='c0: int', args=f'{r}, 1, c0, 0, 0, 0',
                      pre=[f'0 <= c0 < {nmenu}'], timeout=T, group='histories', bound=f'recipe {r} + any 1 of the {nmenu} menu commands'))
        for half in range(2):
            lo, hi = half * nmenu // 2, (half + 1) * nmenu // 2
            obs.append(Ob(id=f'history.recipe{r}.k2.half{half}', module=M, func='history_after_accepted', params='i0: int, c1: int',
                          args=f'{r}, 2, i0, c1, 0', pre=[f'0 <= i0 < {nacc[r]} and {lo} <= c1 < {hi}'], timeout=T, group='histories',
                          bound=f'recipe {r} + any of the {nacc[r]} commands it accepts + any of the {nmenu} menu commands in [{lo},{hi}) '
                                '(a rejected first command leaves everything untouched: covered by k1)'))
    if not quick:
        for r in (7,):
            for i0 in range(nacc[r]):
                obs.append(Ob(id=f'history.recipe{r}.k3.first{i0}', module=M, func='history_after_accepted', params='c1: int, c2: int',
                              args=f'{r}, 3, {i0}, c1, c2', pre=[f'0 <= c1 < {nmenu} and 0 <= c2 < {nmenu}'], timeout=T,
                              group='histories', bound=f'recipe {r} + its accepted command #{i0} + any 2 of the {nmenu} menu commands'))
    obs.append(Ob(id='twin.creates-storage', module=M, func='twin_witness', params='c0: int', post='not _', expect='cex',
                  pre=[f'0 <= c0 < {nmenu}'], timeout=120, group='twin'))
    return obs


def run(tier, only=''):
    nmenu, nrec = _sizes()
    V = driver.Verdicts('C05', tier)
    obs = [o for o in obligations(tier) if only in o.id]
    driver.log(f'C05 {tier}: {len(obs)} CrossHair obligations')
    for ob, r in zip(obs, xhair.run_all(obs, log=driver.log)):
        V.add_xhair(ob, r)
    return V.finish(
        level='model_checking',
        explanation=('Bounded model checking of DDL histories against the backend delta by symbolic execution (CrossHair/z3): '
                     'the commands of a history are symbolic choices from a menu of %d DDL commands over 3 object types (create / '
                     'drop / rename / re-base / abstract <-> concrete, properties and links with single <-> multi and required '
                     '<-> optional, multi properties, annotations); every accepted command goes through ddl.delta_from_ddl, '
                     'pgsql.delta.CommandMeta.adapt, apply and generate exactly as server/compiler/ddl.py:_process_delta does; '
                     'the dbops command stream (CreateTable, DropTable, AlterTable Add/Drop Column, Alter Column Null/Type, with '
                     'their conditions) is interpreted on a ghost catalog. After every accepted command: no emitted operation is '
                     'one PostgreSQL would refuse (creating what exists, dropping or altering what does not), and the ghost '
                     'catalog is exactly the layout the query compiler addresses for the new schema - a table for every object '
                     'type and pointer with types.has_table, a column (name and type) for every stored pointer according to '
                     'types.get_pointer_storage_info / common.get_backend_name - no missing and no orphan table or column.' % nmenu),
        bounds={'pre-states': f'{nrec} recipes built by DDL through the same route', 'commands per history': 2 if tier == 'quick' else '3 (recipe 7), 2 (others)',
                'menu': nmenu},
        stubs=C04.STUBS + ['edb._buildmeta.VERSION supplied by the harness (versioned backend schema names)',
                           'std::sequence added to the std stand-in (looked up by the backend for every new property)',
                           'backend runtime parameters: pgsql.params.get_default_runtime_params()'],
        trusted_base=['ghost catalog interpreter for dbops (vlib/harness/C05_pg.py: execute / Catalog, 150 lines)', 'CrossHair, z3'],
        assumptions=['a command that raises anywhere (schema delta, backend adaptation, SQL generation) is a rejected command whose '
                     'transaction is rolled back: the catalog is unchanged',
                     'raw SQL (dbops.Query) does not change tables or columns: a query text containing table DDL, an unknown '
                     'condition or a rename operation makes the history "not decided" (event "opaque operation"), never passed silently',
                     'the std stand-in has no id / __type__ pointers: their columns are outside'],
        outside=C04.OUTSIDE + ['NOT NULL / DEFAULT of columns, constraints, indexes, triggers, inheritance views (their DDL is generated '
                               'and rendered, not interpreted)', 'link properties other than source / target',
                               'computed <-> stored conversions (need expressions)', 'data migration statements (UPDATE / INSERT '
                               'emitted for cardinality changes)'],
        rule='states = histories that ran to the final comparison; transitions = commands applied')
