"""C20 - dependency ordering respects every dependency and finds real cycles."""
import os
import time

from vlib import driver, xhair
from vlib.xhair import Ob

M = 'vlib.harness.C20_topo'


def obligations(tier):
    quick = tier == 'quick'
    T = float(os.environ.get('VERIF_XH_TIMEOUT') or (300 if quick else 1800))
    obs = []
    # all 2-key graphs over the full label alphabet (hard, soft, merge, loop_control) incl. a missing item
    for a in range(5):
        obs.append(Ob(id=f'graph2.l00_{a}', module=M, func='graph2',
                      params='b: int, c: int, d: int, ua: int, allow: bool, fill_after: bool',
                      args=f'2, {a}, b, c, d, ua, 0, allow, fill_after',
                      pre=['0 <= b <= 4 and 0 <= c <= 4 and 0 <= d <= 4 and 0 <= ua <= 4'], timeout=T, group='N=2, 5 edge kinds',
                      bound=f'2 keys + 1 missing key; pair (0,0) label {a}; the other pairs and the reference to the missing key any of '
                            '{none, hard, soft, merge, loop_control}; allow_unresolved; edges filled before/after construction'))
    # all 3-key graphs with hard / soft edges
    kinds = 0 if quick else 1
    nl = 3 if quick else 4
    names = ['l00', 'l01', 'l02', 'l10', 'l11', 'l12', 'l20', 'l21', 'l22']
    for x in range(nl):
        for y in range(nl):
            live = names[2:]
            obs.append(Ob(id=f'graph3.l00_{x}.l01_{y}', module=M, func='graph3',
                          params=', '.join(f'{n}: int' for n in live) + ', fill_after: bool',
                          args=f'{kinds}, {x}, {y}, ' + ', '.join(live) + ', 0, False, fill_after',
                          pre=[' and '.join(f'0 <= {n} <= {nl - 1}' for n in live)], timeout=T,
                          group=f'N=3, {nl - 1} edge kinds',
                          bound=f'3 keys; labels of pairs (0,0),(0,1) fixed to {x},{y}; the other 7 pairs any of '
                                + ('{none, hard, soft}' if quick else '{none, hard, soft, merge}')))
    for x in range(4):
        obs.append(Ob(id=f'graph3lc.l01_{x}', module=M, func='graph3lc', params='l02: int, l10: int, l12: int, l20: int, l21: int, fill_after: bool',
                      args=f'{x}, l02, l10, l12, l20, l21, fill_after',
                      pre=['0 <= l02 <= 3 and 0 <= l10 <= 3 and 0 <= l12 <= 3 and 0 <= l20 <= 3 and 0 <= l21 <= 3'], timeout=T,
                      group='N=3 with loop_control', bound=f'3 keys, no self-loops; pair (0,1) label {x}; the other 5 pairs any of '
                      '{none, hard, soft, loop_control}'))
    obs.append(Ob(id='normalize2', module=M, func='normalize2', params='a: int, b: int, c: int, d: int',
                  pre=['0 <= a <= 3 and 0 <= b <= 3 and 0 <= c <= 3 and 0 <= d <= 3'], timeout=T, group='normalize',
                  bound='2 keys, pairs labelled {none, hard, soft, merge}'))
    obs.append(Ob(id='twin.graph3', module=M, func='graph3', params='l12: int, l20: int', post='not _', expect='cex',
                  args='0, 0, 1, 0, 0, 0, l12, l20, 0, 0, 0, False, True', pre=['0 <= l12 <= 2 and 0 <= l20 <= 2'], timeout=60, group='twin'))
    return obs


def merged_configs(tier):
    """Configurations of the merged (E2) encoding: N keys, which edge kinds are symbolic."""
    q = [
        dict(N=3, kinds=['hard', 'soft', 'merge', 'lc'], dangling=True, allow=False, cross_check=['after_hard_deps', 'every_item_exactly_once']),
        dict(N=3, kinds=['hard', 'soft', 'merge', 'lc'], dangling=True, allow=True),
        dict(N=4, kinds=['hard', 'soft'], dangling=False, allow=False, cross_check=['hard_cyclic_implies_cycle_error']),
    ]
    if tier == 'quick':
        return q
    return q + [
        dict(N=4, kinds=['hard', 'soft', 'lc'], dangling=False, allow=False, timeout=1800),
        dict(N=4, kinds=['hard', 'soft', 'merge'], dangling=False, allow=False, timeout=1800),
        dict(N=4, kinds=['hard', 'soft'], dangling=True, allow=False, timeout=1800),
        dict(N=4, kinds=['hard', 'soft'], dangling=True, allow=True, timeout=1800),
    ]


def _cfg_id(c):
    return 'merged.N%d.%s%s%s' % (c['N'], '+'.join(c['kinds']), '.missing' if c['dangling'] else '',
                                  '.allow' if c['allow'] else '')


def _run_merged_one(c):
    import json
    import subprocess
    from vlib import VENV_PY
    t = time.time()
    try:
        p = subprocess.run([VENV_PY, '-m', 'vlib.merged_worker', json.dumps(c)], capture_output=True, text=True,
                           env=xhair._env(), cwd=xhair.VERIF, timeout=c.get('timeout', 600) * 14 + 1800)
        line = [ln for ln in p.stdout.splitlines() if ln.startswith('{')]
        if not line:
            return {'status': 'error', 'detail': (p.stderr or p.stdout)[-800:], 'queries': [], 'wall_s': time.time() - t}
        out = json.loads(line[-1])
    except subprocess.TimeoutExpired:
        out = {'status': 'timeout', 'queries': []}
    out['wall_s'] = round(time.time() - t, 1)
    return out


def start_merged(tier, only=''):
    """Starts the E2 workers (they run next to the E1 obligations)."""
    import concurrent.futures as cf
    cfgs = [c for c in merged_configs(tier) if only in _cfg_id(c)]
    ex = cf.ThreadPoolExecutor(max_workers=max(1, min(len(cfgs), 8)))
    return cfgs, [ex.submit(_run_merged_one, c) for c in cfgs]


def run_merged(V, tier, cfgs, futures):
    import json
    if not cfgs:
        return
    driver.log(f'C20 {tier}: {len(cfgs)} merged-encoding configurations (engine E2)')
    results = [f.result() for f in futures]
    summary = []
    for c, out in zip(cfgs, results):
        cid = _cfg_id(c)
        grp = 'E2 merged N=%d' % c['N']
        enc = out.get('encoding', {})
        summary.append({'config': cid, 'status': out.get('status'), 'validation': out.get('validation'), 'encoding': enc,
                        'wall_s': out.get('wall_s')})
        driver.log(f"  [{cid}] status={out.get('status')} frames={enc.get('frames')} defs={enc.get('definitions')} "
                   f"bits={enc.get('input_bits')} build={enc.get('build_s')}s wall={out.get('wall_s')}s")
        if out.get('status') != 'ok':
            if out.get('status') in ('model_mismatch', 'vacuous', 'error'):
                V.inconclusive.append(f"{cid}: {out.get('status')}: {str(out.get('detail') or out.get('validation'))[:300]}")
            V.add_generic(cid, None, detail=f"{out.get('status')}: {str(out.get('detail', ''))[:200]}", group=grp)
        for q in out.get('queries', []):
            oid = f"{cid}.{q['name']}"
            if q['expect'] == 'sat':
                if q['result'] == 'sat':
                    V.twins_ok += 1
                continue
            if q['result'] == 'unsat':
                V.add_generic(oid, True, detail={k: q[k] for k in q if k in ('second_solver', 'note')} or None, group=grp,
                              solver_s=q.get('solver_s', 0))
            elif q['result'] == 'sat':
                if q.get('replay_violations'):
                    V.replayed += 0
                    V.add_generic(oid, False, group=grp, solver_s=q.get('solver_s', 0),
                                  violation={'engine': 'E2 merged encoding', 'config': c, 'query': q['name'],
                                             'model_true_bits': q['model'], 'real_outcome': q['real'],
                                             'violations': q['replay_violations'],
                                             'call': 'edges ' + ', '.join(sorted(q['model'])) + ' -> ' + '; '.join(q['replay_violations'])[:200],
                                             'replay_cmd': '%s -m vlib.merged_replay %r' % (
                                                 '/verif/.venv/bin/python', json.dumps({'config': c, 'model': q['model']}))})
                else:
                    # the model does not reproduce on the real function: the encoding is wrong
                    V.inconclusive.append(f"{oid}: solver model does not reproduce on the real function: {q['model']} -> {q['real']}")
                    V.add_generic(oid, None, detail='model not reproduced', group=grp)
            else:
                V.add_generic(oid, None, detail=q['result'], group=grp, solver_s=q.get('solver_s', 0))
    V.extra_merged = summary


def run(tier, only=''):
    V = driver.Verdicts('C20', tier)
    obs = [o for o in obligations(tier) if only in o.id]
    cfgs, futures = start_merged(tier, only)
    driver.log(f'C20 {tier}: {len(obs)} CrossHair obligations')
    for ob, r in zip(obs, xhair.run_all(obs, log=driver.log)):
        V.add_xhair(ob, r)
    run_merged(V, tier, cfgs, futures)
    merged = getattr(V, 'extra_merged', [])
    return V.finish(
        level='other',
        engine='E1: CrossHair 0.0.110 (z3) on the real Python code; E2: vlib.pysym merged predicated encoding of the '
               'current source of sort_ex into QF_BV, z3 (simplify; solve-eqs; bit-blast; sat), cvc5 binary as second solver',
        explanation=('Two engines over the real topological.sort_ex. E1: bounded symbolic execution (CrossHair/z3) of sort_ex / '
                     'sort / normalize over a symbolic labelling of all ordered pairs of a small key set (per-path case split '
                     'with solver pruning). E2: the AST of sort_ex (read with inspect.getsource from the tree under test on '
                     'every run) is evaluated symbolically by vlib.pysym into ONE formula over one Boolean per (edge kind, '
                     'ordered pair): statements run under path guards, containers over the concrete key universe have '
                     'symbolic membership, exceptions are guarded completion records, recursion is unrolled with an '
                     'unwinding assertion; each property is one solver query over all graphs of that size. Properties: '
                     'exactly one outcome (completes / CycleError / UnresolvedReferenceError); no exception => every key '
                     'exactly once and after all of its hard (deps + merge) dependencies; a cycle over deps/merge edges is '
                     'always reported and a reported cycle is a real cycle over deps/merge/loop_control edges; soft edges are '
                     'honoured when all edges together are acyclic; removing the soft edges never changes the outcome; a '
                     'reference to a missing item raises iff allow_unresolved is false. The evaluator is validated on every '
                     'run against CPython running the real function on concrete graphs; a solver model is replayed on the '
                     'real function before it is reported; vacuity witnesses (both outcomes satisfiable) per configuration.'),
        bounds={'E1 N=2': 'all labellings of the 4 pairs + one reference to a missing key over 5 edge kinds',
                'E1 N=3': 'all labellings of the 9 pairs over {none, hard, soft}' + ('' if tier == 'quick' else ' + merge') + '; all labellings of the 6 off-diagonal pairs over {none, hard, soft, loop_control}',
                'E2': [m['config'] + ': ' + str((m.get('encoding') or {}).get('input_bits')) + ' independent edge bits, recursion bound N+1'
                       for m in merged]},
        stubs=['E2: arguments of raise statements (message formatting) are not evaluated'],
        trusted_base=['reachability oracle (Floyd-Warshall in the harness; repeated squaring in the E2 property formulas)',
                      'CrossHair, z3', 'vlib.pysym (validated per run against CPython on concrete graphs)'],
        assumptions=['keys are iterated in ascending order (dict / OrderedSet insertion order; sets of small ints iterate in ascending order in CPython); other insertion orders are outside'],
        outside=['N >= 5; N = 4 with all four edge kinds at once', 'other iteration orders', 'hash order of plain sets supplied by a caller',
                 'sort()/normalize() wrappers at N >= 3 (E1 covers them at N = 2..3)'],
        extra={'exhaustive_within_bound': True, 'merged_encoding': merged},
    )
