"""C20 - dependency ordering respects every dependency and finds real cycles."""
import os

from vlib import driver, xhair
from vlib.xhair import Ob

M = 'vlib.harness.C20_topo'


def obligations(tier):
    quick = tier == 'quick'
    T = float(os.environ.get('VERIF_XH_TIMEOUT') or (300 if quick else 1800))
    obs = []
    # all 2-key graphs over the full label alphabet (hard, soft, merge, loop_control) incl. a missing item
    for a in range(5):
        obs.append(Ob(id=f'graph2.l00_{a}', module=M, func='graph2',
                      params='b: int, c: int, d: int, ua: int, allow: bool, fill_after: bool',
                      args=f'2, {a}, b, c, d, ua, 0, allow, fill_after',
                      pre=['0 <= b <= 4 and 0 <= c <= 4 and 0 <= d <= 4 and 0 <= ua <= 4'], timeout=T, group='N=2, 5 edge kinds',
                      bound=f'2 keys + 1 missing key; pair (0,0) label {a}; the other pairs and the reference to the missing key any of '
                            '{none, hard, soft, merge, loop_control}; allow_unresolved; edges filled before/after construction'))
    # all 3-key graphs with hard / soft edges
    kinds = 0 if quick else 1
    nl = 3 if quick else 4
    names = ['l00', 'l01', 'l02', 'l10', 'l11', 'l12', 'l20', 'l21', 'l22']
    for x in range(nl):
        for y in range(nl):
            live = names[2:]
            obs.append(Ob(id=f'graph3.l00_{x}.l01_{y}', module=M, func='graph3',
                          params=', '.join(f'{n}: int' for n in live) + ', fill_after: bool',
                          args=f'{kinds}, {x}, {y}, ' + ', '.join(live) + ', 0, False, fill_after',
                          pre=[' and '.join(f'0 <= {n} <= {nl - 1}' for n in live)], timeout=T,
                          group=f'N=3, {nl - 1} edge kinds',
                          bound=f'3 keys; labels of pairs (0,0),(0,1) fixed to {x},{y}; the other 7 pairs any of '
                                + ('{none, hard, soft}' if quick else '{none, hard, soft, merge}')))
    for x in range(4):
        obs.append(Ob(id=f'graph3lc.l01_{x}', module=M, func='graph3lc', params='l02: int, l10: int, l12: int, l20: int, l21: int, fill_after: bool',
                      args=f'{x}, l02, l10, l12, l20, l21, fill_after',
                      pre=['0 <= l02 <= 3 and 0 <= l10 <= 3 and 0 <= l12 <= 3 and 0 <= l20 <= 3 and 0 <= l21 <= 3'], timeout=T,
                      group='N=3 with loop_control', bound=f'3 keys, no self-loops; pair (0,1) label {x}; the other 5 pairs any of '
                      '{none, hard, soft, loop_control}'))
    obs.append(Ob(id='normalize2', module=M, func='normalize2', params='a: int, b: int, c: int, d: int',
                  pre=['0 <= a <= 3 and 0 <= b <= 3 and 0 <= c <= 3 and 0 <= d <= 3'], timeout=T, group='normalize',
                  bound='2 keys, pairs labelled {none, hard, soft, merge}'))
    obs.append(Ob(id='twin.graph3', module=M, func='graph3', params='l12: int, l20: int', post='not _', expect='cex',
                  args='0, 0, 1, 0, 0, 0, l12, l20, 0, 0, 0, False, True', pre=['0 <= l12 <= 2 and 0 <= l20 <= 2'], timeout=60, group='twin'))
    return obs


def run(tier, only=''):
    V = driver.Verdicts('C20', tier)
    obs = [o for o in obligations(tier) if only in o.id]
    driver.log(f'C20 {tier}: {len(obs)} CrossHair obligations')
    for ob, r in zip(obs, xhair.run_all(obs, log=driver.log)):
        V.add_xhair(ob, r)
    return V.finish(
        level='other',
        explanation=('Bounded symbolic execution (CrossHair/z3) of the real topological.sort_ex / sort / normalize over a symbolic '
                     'labelling of all ordered pairs of a small key set: no exception => every key exactly once and after all of its '
                     'hard (deps + merge) dependencies; CycleError <=> the hard dependencies are cyclic (self-loops included); soft '
                     'edges are honoured when hard + soft is acyclic and never cause a failure; references to a missing item raise '
                     'iff allow_unresolved is false; the result is the same on a rebuilt equal input. The input is finite-domain, '
                     'so per-path symbolic execution amounts to an exhaustive case split with solver pruning (the merged '
                     'bit-vector encoding planned in DESIGN.md for N = 4..5 was not built; see DESIGN.md section 4, C20).'),
        bounds={'N=2': 'all labellings of the 4 pairs + one reference to a missing key over 5 edge kinds',
                'N=3': 'all labellings of the 9 pairs over {none, hard, soft}' + ('' if tier == 'quick' else ' + merge') + '; all labellings of the 6 off-diagonal pairs over {none, hard, soft, loop_control}'},
        stubs=[], trusted_base=['reachability oracle (Floyd-Warshall, 8 lines) in the harness', 'CrossHair, z3'],
        assumptions=['keys are iterated in ascending order (dict / OrderedSet insertion order); other insertion orders are outside'],
        outside=['N >= 4', 'loop_control edges at N = 3', 'other iteration orders', 'hash order of plain sets supplied by a caller'],
        extra={'exhaustive_within_bound': True},
    )
