"""Helpers for harnesses whose symbolic inputs are *choices* (which operation,
which name, which fault): the choice is made concrete by a chain of forks
(the solver prunes infeasible combinations and CrossHair's search covers every
feasible one), after which the real code runs on concrete values - natively,
outside CrossHair's tracer, which is 10-50x faster than traced execution."""
import contextlib
import os

from .symchars import is_tracing


class _Untraced:
    """CrossHair's NoTracing plus, on Python >= 3.12, switching off the per-instruction
    sys.monitoring events for the duration: NoTracing alone still pays a callback per
    executed instruction (measured ~8x slower than native on the schema machinery)."""

    def __init__(self, heavy):
        self.heavy = heavy

    def __enter__(self):
        import sys
        from crosshair import tracers
        self._nt = tracers.NoTracing()
        self._nt.__enter__()
        self._mon = None
        if self.heavy and sys.version_info >= (3, 12) and os.environ.get('VERIF_KEEP_MONITORING') != '1':
            tid = tracers.SYS_MONITORING_TOOL_ID
            try:
                self._mon = (tid, sys.monitoring.get_events(tid))
                sys.monitoring.set_events(tid, 0)
            except Exception:     # noqa: BLE001
                self._mon = None
        return self

    def __exit__(self, *a):
        import sys
        if self._mon is not None:
            tid, ev = self._mon
            sys.monitoring.set_events(tid, ev)
            sys.monitoring.restart_events()
        return self._nt.__exit__(*a)


def untraced(heavy: bool = False):
    """heavy=True additionally switches the instruction events off (worth it for regions that run
    tens of milliseconds of real code; for many short regions per path the switching costs more
    than it saves - measured on the pool harnesses)."""
    if is_tracing():
        return _Untraced(heavy)
    return contextlib.nullcontext()


def concrete_index(x: int, n: int) -> int:
    """x as a concrete int in 0..n-1, or -1 if it is outside that range.
    Bisection: about log2(n) solver decisions per path instead of up to n."""
    if x < 0:
        return -1
    if x >= n:
        return -1
    lo, hi = 0, n
    while hi - lo > 1:
        mid = (lo + hi) // 2
        if x < mid:
            hi = mid
        else:
            lo = mid
    return lo


def concrete_bool(b: bool) -> bool:
    if b:
        return True
    return False
