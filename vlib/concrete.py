"""Helpers for harnesses whose symbolic inputs are *choices* (which operation,
which name, which fault): the choice is made concrete by a chain of forks
(the solver prunes infeasible combinations and CrossHair's search covers every
feasible one), after which the real code runs on concrete values - natively,
outside CrossHair's tracer, which is 10-50x faster than traced execution."""
import contextlib

from .symchars import is_tracing


def untraced():
    if is_tracing():
        from crosshair.tracers import NoTracing
        return NoTracing()
    return contextlib.nullcontext()


def concrete_index(x: int, n: int) -> int:
    """x as a concrete int in 0..n-1, or -1 if it is outside that range."""
    for i in range(n):
        if x == i:
            return i
    return -1


def concrete_bool(b: bool) -> bool:
    if b:
        return True
    return False
