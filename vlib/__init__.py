"""Verification machinery for edgedb/edgedb: solver-based checking of the real code.

See /verif/DESIGN.md.
"""
import os

VERIF = os.path.dirname(os.path.dirname(os.path.abspath(__file__)))
REPO = os.environ.get('VERIF_REPO', '/repo')
VENV = os.path.join(VERIF, '.venv')
VENV_PY = os.path.join(VENV, 'bin', 'python')
BASE_PY = '/venv/bin/python'
WHEELS = '/opt/veriftools/wheels'
GUARD = 'EDGEDB_VERIF'
