#!/venv/bin/python
"""Entry point of every check.

    /venv/bin/python /verif/check.py C18 [--tier quick|thorough]
    /venv/bin/python /verif/check.py C18 --replay /verif/replays/C18_v0.json

exit 0: property held on everything explored (KNOWN-FINDING lines for listed
        findings that still reproduce)
exit 1: `VIOLATION property=<id> replay=<path>` - a counterexample returned by
        the solver and reproduced natively against /repo
exit 2: inconclusive (machinery problem; never used for "solver timed out")
"""
import argparse
import importlib
import json
import os
import sys

HERE = os.path.dirname(os.path.abspath(__file__))
sys.path.insert(0, HERE)
sys.dont_write_bytecode = True


def main() -> int:
    ap = argparse.ArgumentParser()
    ap.add_argument('prop')
    ap.add_argument('--tier', default=os.environ.get('VERIF_TIER') or 'quick',
                    choices=['quick', 'thorough'])
    ap.add_argument('--replay')
    ap.add_argument('--only', default='', help='substring filter on obligation ids (debugging)')
    a = ap.parse_args()
    from vlib import bootstrap
    bootstrap.ensure_venv()
    bootstrap.add_overlay_to_path()
    os.environ['EDGEDB_VERIF'] = '1'
    if a.replay:
        from vlib import replay
        return replay.main(a.prop, a.replay)
    mod = importlib.import_module('vlib.props.' + a.prop)
    return int(mod.run(a.tier, only=a.only))


if __name__ == '__main__':
    sys.exit(main())
